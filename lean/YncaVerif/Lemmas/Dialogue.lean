import YncaVerif.Model.Dialogue
/-! Helper lemmas for the L5 dialogue model (C06 barrier / bound, C07 stage barriers). -/
namespace Ynca.L5

/-! ## induction over runs -/

theorem run_inv (answer : Answer) (P : D → Prop)
    (hstep : ∀ s s' l, P s → step answer s l = some s' → P s') :
    ∀ ls s0 s, P s0 → run answer s0 ls = some s → P s := by
  intro ls
  induction ls with
  | nil => intro s0 s h0 hr; simp [run] at hr; subst hr; exact h0
  | cons l ls ih =>
    intro s0 s h0 hr
    simp only [run] at hr
    split at hr
    · next s' hs' => exact ih s' s (hstep s0 s' l h0 hs') hr
    · cases hr

theorem reachable_induction (answer : Answer) (P : D → Prop) (h0 : P {})
    (hstep : ∀ s s' l, P s → step answer s l = some s' → P s') :
    ∀ s, Reachable answer s → P s := by
  intro s ⟨ls, hr⟩
  exact run_inv answer P hstep ls {} s h0 hr

/-! ## list helpers -/

theorem countP_take_le {α} (p : α → Bool) (l : List α) (k : Nat) : (l.take k).countP p ≤ l.countP p := by
  conv => rhs; rw [← List.take_append_drop k l]
  rw [List.countP_append]; omega

/-- if the prefix of length `k` already holds every `p`-element, no element from index `k` on satisfies `p` -/
theorem countP_take_eq_no_later {α} (p : α → Bool) (l : List α) (k j : Nat) (x : α)
    (h : (l.take k).countP p = l.countP p) (hkj : k ≤ j) (hx : l[j]? = some x) : p x = false := by
  have h2 : l.countP p = (l.take k).countP p + (l.drop k).countP p := by
    conv => lhs; rw [← List.take_append_drop k l]
    rw [List.countP_append]
  have h0 : (l.drop k).countP p = 0 := by omega
  rw [List.countP_eq_zero] at h0
  have hm : x ∈ l.drop k := by
    rw [List.mem_iff_getElem?]
    refine ⟨j - k, ?_⟩
    rw [List.getElem?_drop]
    have : k + (j - k) = j := by omega
    rw [this]; exact hx
  have := h0 x hm
  simpa using this

/-! ## the invariants

`Inv` — bookkeeping of queues, counters and `SYS:VERSION` counts, over all reachable states;
`InvS` — how the stage and the event relate to the balance of `SYS:VERSION` queries and replies. -/

structure Inv (s : D) : Prop where
  enq : s.written.length + s.pending.length = s.enqueued
  cons_le : s.consumed ≤ s.written.length
  ans_len : s.ansEnd.length = s.consumed
  proc_le : s.processed ≤ s.emitted.length
  ans_le : ∀ e ∈ s.ansEnd, e ≤ s.emitted.length
  ans_sorted : s.ansEnd.Pairwise (· ≤ ·)
  vl_eq : s.vl = (s.emitted.take s.processed).countP isVersionLine
  em_cnt : s.emitted.countP isVersionLine = (s.written.take s.consumed).countP (· == versionQuery)
  vq_eq : (s.written ++ s.pending).countP (· == versionQuery) = s.vq
  last_q : s.written ++ s.pending = [] ∨ ∃ pre, s.written ++ s.pending = pre ++ [versionQuery]
  vans : ∀ i, i < s.consumed → s.written[i]? = some versionQuery →
    ∃ e l, s.ansEnd[i]? = some e ∧ 1 ≤ e ∧ s.emitted[e - 1]? = some l ∧ isVersionLine l = true

theorem inv_init : Inv {} := by
  constructor <;> simp

theorem inv_step (answer : Answer) (ha : AnswerOk answer) (s s' : D) (l : Label) (hi : Inv s)
    (hs : step answer s l = some s') : Inv s' := by
  obtain ⟨h1, h2, h3, h4, h5, h6, h7, h8, h9, h10, h11⟩ := hi
  cases l with
  | «begin» queries timeout =>
    simp only [step] at hs
    split at hs
    · next hc =>
      simp at hs; subst hs
      have hq : List.countP (fun x => x == versionQuery) queries = 0 := by
        rw [List.countP_eq_zero]; intro a ha; simpa using hc.2 a ha
      constructor <;> simp only [] <;> try assumption
      case enq => simp; omega
      case vq_eq => simp [List.countP_append] at h9 ⊢; omega
      case last_q => exact Or.inr ⟨s.written ++ (s.pending ++ queries), by simp⟩
    · cases hs
  | write =>
    simp only [step] at hs
    split at hs
    · next q rest hp =>
      simp at hs; subst hs
      have ht : List.take s.consumed (s.written ++ [q]) = List.take s.consumed s.written :=
        List.take_append_of_le_length h2
      constructor <;> simp only [] <;> try assumption
      case enq => simp [hp] at h1 ⊢; omega
      case cons_le => simp; omega
      case em_cnt => rw [ht]; exact h8
      case vq_eq => simpa [hp] using h9
      case last_q => simpa [hp] using h10
      case vans =>
        intro i hi hw
        have : i < s.written.length := by omega
        rw [List.getElem?_append_left this] at hw
        exact h11 i hi hw
    · cases hs
  | consume =>
    simp only [step] at hs
    split at hs
    · next hc =>
      simp at hs; subst hs
      generalize hq : s.written[s.consumed] = q
      have hq' : s.written[s.consumed]? = some q := by simp [hc, hq]
      have hcnt : List.countP isVersionLine (answer q) = if q = versionQuery then 1 else 0 := by
        split
        · next hv => obtain ⟨l, hl, hvl⟩ := ha.2; subst hv; simp [hl, hvl]
        · next hv => rw [List.countP_eq_zero]; intro a ham; simp [ha.1 q hv a ham]
      constructor <;> simp only [] <;> try assumption
      case ans_len => simp; omega
      case proc_le => simp; omega
      case ans_le =>
        intro e he
        simp at he ⊢
        rcases he with he | he
        · have := h5 e he; omega
        · omega
      case ans_sorted =>
        rw [List.pairwise_append]
        refine ⟨h6, by simp, ?_⟩
        intro a ha b hb
        simp at hb
        have := h5 a ha; omega
      case vl_eq => rw [List.take_append_of_le_length h4]; exact h7
      case em_cnt =>
        rw [List.countP_append, List.take_add_one, List.countP_append, hq', hcnt, h8]
        by_cases hv : q = versionQuery <;> simp [hv]
      case vans =>
        intro i hi hw
        by_cases hic : i < s.consumed
        · obtain ⟨e, l, h1', h2', h3', h4'⟩ := h11 i hic hw
          refine ⟨e, l, ?_, h2', ?_, h4'⟩
          · rw [List.getElem?_append_left (by omega)]; exact h1'
          · have : e - 1 < s.emitted.length := by
              have := (List.getElem?_eq_some_iff.mp h3').1; exact this
            rw [List.getElem?_append_left this]; exact h3'
        · have hie : i = s.consumed := by omega
          subst hie
          rw [hq'] at hw
          have hw : q = versionQuery := by simpa using hw
          obtain ⟨l, hl, hvl⟩ := ha.2
          subst hw
          refine ⟨s.emitted.length + 1, l, ?_, by omega, ?_, hvl⟩
          · rw [← h3]; simp [hl]
          · simp [hl]
    · cases hs
  | unsolicited l =>
    simp only [step] at hs
    split at hs
    · cases hs
    · next hv =>
      simp at hs; subst hs
      constructor <;> simp only [] <;> try assumption
      case proc_le => simp; omega
      case ans_le => intro e he; have := h5 e he; simp; omega
      case vl_eq => rw [List.take_append_of_le_length h4]; exact h7
      case em_cnt => rw [List.countP_append, h8]; simp [hv]
      case vans =>
        intro i hi hw
        obtain ⟨e, l', h1', h2', h3', h4'⟩ := h11 i hi hw
        refine ⟨e, l', h1', h2', ?_, h4'⟩
        have : e - 1 < s.emitted.length := (List.getElem?_eq_some_iff.mp h3').1
        rw [List.getElem?_append_left this]; exact h3'
  | process =>
    simp only [step] at hs
    split at hs
    · next hc =>
      simp at hs; subst hs
      constructor <;> simp only [] <;> try assumption
      case vl_eq =>
        rw [List.take_add_one, List.countP_append, ← h7]
        simp [hc]
        split <;> simp_all
    · cases hs
  | wake =>
    simp only [step] at hs
    split at hs
    · split at hs
      · simp at hs; subst hs; constructor <;> simp only [] <;> assumption
      · cases hs
    · cases hs
  | timeout =>
    simp only [step] at hs
    split at hs
    · split at hs
      · simp at hs; subst hs; constructor <;> simp only [] <;> assumption
      · cases hs
    · cases hs
  | tick d =>
    simp only [step] at hs
    split at hs
    · split at hs
      · cases hs
      · split at hs
        · simp at hs; subst hs; constructor <;> simp only [] <;> assumption
        · cases hs
    · split at hs
      · simp at hs; subst hs; constructor <;> simp only [] <;> assumption
      · cases hs


theorem Inv.vl_le_vq {s : D} (hi : Inv s) : s.vl ≤ s.vq := by
  have a := countP_take_le isVersionLine s.emitted s.processed
  have b := countP_take_le (· == versionQuery) s.written s.consumed
  have c := hi.vq_eq
  rw [List.countP_append] at c
  have d := hi.vl_eq
  have e := hi.em_cnt
  omega

/-- stage bookkeeping -/
structure InvS (s : D) : Prop where
  wait_enq : ∀ f c dl, s.stage = .waiting f c dl → f + c = s.enqueued
  bal_rest : s.stage = .idle ∨ s.stage = .ok → s.vl = s.vq
  bal_set : ∀ f c dl, s.stage = .waiting f c dl → s.event = true → s.vl = s.vq
  bal_unset : ∀ f c dl, s.stage = .waiting f c dl → s.event = false → s.vl + 1 = s.vq

theorem invS_init : InvS {} := by
  constructor <;> simp

theorem invS_step (answer : Answer) (s s' : D) (l : Label) (hi : InvS s) (hle : s'.vl ≤ s'.vq)
    (hs : step answer s l = some s') : InvS s' := by
  obtain ⟨h1, h2, h3, h4⟩ := hi
  cases l with
  | «begin» queries timeout =>
    simp only [step] at hs
    split at hs
    · next hc =>
      simp at hs; subst hs
      constructor <;> simp_all
      omega
    · cases hs
  | write =>
    simp only [step] at hs
    split at hs
    · simp at hs; subst hs; exact ⟨h1, h2, h3, h4⟩
    · cases hs
  | consume =>
    simp only [step] at hs
    split at hs
    · simp at hs; subst hs; exact ⟨h1, h2, h3, h4⟩
    · cases hs
  | unsolicited l =>
    simp only [step] at hs
    split at hs
    · cases hs
    · simp at hs; subst hs; exact ⟨h1, h2, h3, h4⟩
  | process =>
    simp only [step] at hs
    split at hs
    · next hc =>
      simp at hs; subst hs
      simp only [] at hle
      generalize isVersionLine s.emitted[s.processed] = b at hle ⊢
      constructor <;> simp only []
      case wait_enq => exact h1
      case bal_rest =>
        intro hst; have := h2 hst
        cases b <;> simp at hle ⊢ <;> omega
      case bal_set =>
        intro f c dl hst hev
        have h3' := h3 f c dl hst
        have h4' := h4 f c dl hst
        rw [hst] at hev
        cases b <;> cases hse : s.event <;> simp [hse] at hle hev h3' h4' ⊢ <;> omega
      case bal_unset =>
        intro f c dl hst hev
        have h4' := h4 f c dl hst
        rw [hst] at hev
        cases b <;> cases hse : s.event <;> simp [hse] at hle hev h4' ⊢ <;> omega
    · cases hs
  | wake =>
    simp only [step] at hs
    split at hs
    · split at hs
      · simp at hs; subst hs; constructor <;> simp_all
      · cases hs
    · cases hs
  | timeout =>
    simp only [step] at hs
    split at hs
    · split at hs
      · simp at hs; subst hs; constructor <;> simp_all
      · cases hs
    · cases hs
  | tick d =>
    simp only [step] at hs
    split at hs
    · split at hs
      · cases hs
      · split at hs
        · simp at hs; subst hs; exact ⟨h1, h2, h3, h4⟩
        · cases hs
    · split at hs
      · simp at hs; subst hs; exact ⟨h1, h2, h3, h4⟩
      · cases hs


theorem reachable_inv (answer : Answer) (ha : AnswerOk answer) (s : D) (h : Reachable answer s) :
    Inv s ∧ InvS s := by
  refine reachable_induction answer (fun s => Inv s ∧ InvS s) ⟨inv_init, invS_init⟩ ?_ s h
  intro s s' l ⟨hi, his⟩ hs
  have hi' := inv_step answer ha s s' l hi hs
  exact ⟨hi', invS_step answer s s' l his hi'.vl_le_vq hs⟩

/-- the heart of the barrier: once every enqueued `SYS:VERSION` query has had its reply processed, the device
    has consumed every enqueued command and the reader has processed every answer -/
theorem barrier_core {s : D} (hi : Inv s) (hv : s.vl = s.vq) :
    s.consumed = s.enqueued ∧ s.written.length = s.enqueued ∧ s.pending = [] ∧
    ∀ e ∈ s.ansEnd, e ≤ s.processed := by
  obtain ⟨h1, h2, h3, h4, h5, h6, h7, h8, h9, h10, h11⟩ := hi
  have a := countP_take_le isVersionLine s.emitted s.processed
  -- all = take consumed written ++ rest
  have hall : s.written ++ s.pending = s.written.take s.consumed ++ (s.written.drop s.consumed ++ s.pending) := by
    rw [← List.append_assoc, List.take_append_drop]
  have hc := h9
  rw [hall, List.countP_append] at hc
  have hrest0 : (s.written.drop s.consumed ++ s.pending).countP (· == versionQuery) = 0 := by omega
  have hfull : s.emitted.countP isVersionLine = (s.emitted.take s.processed).countP isVersionLine := by omega
  have hrest : s.written.drop s.consumed ++ s.pending = [] := by
    rcases h10 with h10 | ⟨pre, hpre⟩
    · rw [hall] at h10; simp at h10; simp [h10]
    · cases hr : s.written.drop s.consumed ++ s.pending with
      | nil => rfl
      | cons x xs =>
        exfalso
        have hlast : (s.written.drop s.consumed ++ s.pending).getLast? = some versionQuery := by
          have : (s.written ++ s.pending).getLast? = some versionQuery := by rw [hpre]; simp
          rw [hall, List.getLast?_append, hr] at this
          rw [hr]; simpa using this
        rw [List.countP_eq_zero] at hrest0
        have := hrest0 versionQuery (List.mem_of_getLast? hlast)
        simp at this
  have hp : s.pending = [] := by simp at hrest; exact hrest.2
  have hwl : s.written.length ≤ s.consumed := by simp at hrest; exact hrest.1
  have hce : s.consumed = s.written.length := by omega
  refine ⟨by simp [hp] at h1; omega, by simp [hp] at h1; omega, hp, ?_⟩
  intro e he
  -- the last consumed command is the sync query
  rcases h10 with h10 | ⟨pre, hpre⟩
  · simp at h10; simp [h10.1] at h2; rw [← h3] at h2; simp at h2; simp [h2] at he
  · rw [hp, List.append_nil] at hpre
    have hlen : s.written.length = pre.length + 1 := by rw [hpre]; simp
    have hw : s.written[s.consumed - 1]? = some versionQuery := by
      rw [hpre, hce, hlen]; simp
    obtain ⟨e', l, he1, he2, he3, he4⟩ := h11 (s.consumed - 1) (by omega) hw
    have hle' : e' ≤ s.processed := by
      apply Classical.byContradiction
      intro hn
      have := countP_take_eq_no_later isVersionLine s.emitted s.processed (e' - 1) l hfull.symm (by omega) he3
      simp [he4] at this
    -- sortedness: every answer ends no later than the last one
    have hsort : e ≤ e' := by
      rw [List.pairwise_iff_getElem] at h6
      obtain ⟨i, hi, hei⟩ := List.mem_iff_getElem.mp he
      have hj : s.consumed - 1 < s.ansEnd.length := by omega
      have he'j : s.ansEnd[s.consumed - 1] = e' := by
        have := List.getElem?_eq_some_iff.mp he1; exact this.2
      by_cases hij : i < s.consumed - 1
      · have := h6 i (s.consumed - 1) hi hj hij
        rw [hei, he'j] at this; exact this
      · have : i = s.consumed - 1 := by omega
        subst this; rw [← hei, he'j]; exact Nat.le_refl _
    omega

theorem version_balance (answer : Answer) (ha : AnswerOk answer) (s : D) (h : Reachable answer s)
    (hs : s.stage = .idle ∨ s.stage = .ok) : s.vl = s.vq :=
  (reachable_inv answer ha s h).2.bal_rest hs

theorem barrier (answer : Answer) (ha : AnswerOk answer) (s : D) (h : Reachable answer s) (hok : s.stage = .ok) :
    s.consumed = s.enqueued ∧ s.written.length = s.enqueued ∧ s.pending = [] ∧
    ∀ e ∈ s.ansEnd, e ≤ s.processed :=
  have ⟨hi, his⟩ := reachable_inv answer ha s h
  barrier_core hi (his.bal_rest (Or.inr hok))

theorem barrier_waiting (answer : Answer) (ha : AnswerOk answer) (s : D) (h : Reachable answer s)
    (first count dl : Nat) (hw : s.stage = .waiting first count dl) (he : s.event = true) :
    first + count ≤ s.consumed ∧ ∀ i, i < first + count → ∃ e, s.ansEnd[i]? = some e ∧ e ≤ s.processed := by
  have ⟨hi, his⟩ := reachable_inv answer ha s h
  have ⟨b1, _, _, b4⟩ := barrier_core hi (his.bal_set first count dl hw he)
  have hfc := his.wait_enq first count dl hw
  refine ⟨by omega, ?_⟩
  intro i hi'
  have hlt : i < s.ansEnd.length := by rw [hi.ans_len]; omega
  exact ⟨s.ansEnd[i], List.getElem?_eq_getElem hlt, b4 _ (List.getElem_mem hlt)⟩

theorem waiting_bounded (answer : Answer) (s : D) (h : Reachable answer s) (first count dl : Nat)
    (hw : s.stage = .waiting first count dl) : s.now ≤ dl := by
  have := reachable_induction answer (fun s => ∀ f c dl, s.stage = .waiting f c dl → s.now ≤ dl)
    (by simp) ?_ s h
  · exact this first count dl hw
  · intro s s' l hi hs
    cases l <;> simp only [step] at hs <;> (repeat' split at hs) <;>
      cases hs <;> intro f c dl hst <;> simp_all <;> omega

theorem failed_final (answer : Answer) (s s' : D) (l : Label) (hf : s.stage = .failed)
    (h : step answer s l = some s') : s'.stage = .failed := by
  cases l <;> simp only [step, hf] at h <;> (repeat' split at h) <;>
    cases h <;> simp_all

end Ynca.L5
