import YncaVerif.Model.Dialogue
/-! Helper lemmas for the L5 dialogue model (C06 barrier / bound, C07 stage barriers). -/
namespace Ynca.L5
end Ynca.L5
