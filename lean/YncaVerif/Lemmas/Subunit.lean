import YncaVerif.Model.Subunit
/-! Helper lemmas about the L3 subunit model (C03, C05, C06, C09, C10). -/
namespace Ynca

def nodupStr : List String → Bool
  | [] => true
  | x :: xs => !xs.contains x && nodupStr xs

/-- decidable well-formedness of a class table: attribute names pairwise distinct, protocol names pairwise distinct -/
def clsOk (c : Cls) : Bool := nodupStr (c.fns.map (·.attr)) && nodupStr (c.fns.map (·.name))

/-- what message `m` reports for function `f` of class `c`: a decoded value, or nothing
    (error status, other subunit, other function, missing or undecodable value) -/
def reports (tbls : List EnumTbl) (ex : Exotic) (c : Cls) (f : Fn) (m : Msg) : Option Val :=
  if m.status = .ok ∧ m.subunit = some c.id ∧ m.fn = some f.name then
    m.value.bind (decodeFull tbls ex f.conv)
  else none

/-- the most recent report for `f` in history `h` (oldest first) -/
def lastReported (tbls : List EnumTbl) (ex : Exotic) (c : Cls) (f : Fn) (h : List Msg) : Option Val :=
  h.reverse.findSome? (reports tbls ex c f)

/-! ### `find?` under distinct keys -/

theorem find?_of_nodupStr {α : Type} (g : α → String) (l : List α)
    (hnd : nodupStr (l.map g) = true) (f : α) (hf : f ∈ l) :
    l.find? (fun x => g x == g f) = some f := by
  induction l with
  | nil => cases hf
  | cons a l ih =>
    simp only [List.map_cons, nodupStr, Bool.and_eq_true, Bool.not_eq_true',
      List.contains_eq_mem, decide_eq_false_iff_not, List.mem_map, not_exists, not_and] at hnd
    rw [List.find?_cons]
    by_cases hag : g a = g f
    · have : a = f := by
        rcases List.mem_cons.mp hf with h | h
        · exact h.symm
        · exact absurd hag.symm (hnd.1 f h)
      simp [this]
    · have hne : f ≠ a := fun h => hag (by rw [h])
      have hfl : f ∈ l := by
        rcases List.mem_cons.mp hf with h | h
        · exact absurd h hne
        · exact h
      have : (g a == g f) = false := by simpa using hag
      rw [this]
      exact ih hnd.2 hfl

theorem findFn_of_clsOk (c : Cls) (hc : clsOk c = true) (f : Fn) (hf : f ∈ c.fns) :
    findFn c f.name = some f := by
  simp only [clsOk, Bool.and_eq_true] at hc
  exact find?_of_nodupStr (·.name) c.fns hc.2 f hf

theorem findAttr_of_clsOk (c : Cls) (hc : clsOk c = true) (f : Fn) (hf : f ∈ c.fns) :
    findAttr c f.attr = some f := by
  simp only [clsOk, Bool.and_eq_true] at hc
  exact find?_of_nodupStr (·.attr) c.fns hc.1 f hf

/-! ### the cache -/

@[simp] theorem cacheGet_nil (k : String) : cacheGet [] k = none := rfl

theorem cacheGet_cacheSet_same (cache : List (String × Val)) (k : String) (v : Val) :
    cacheGet (cacheSet cache k v) k = some v := by
  simp [cacheGet, cacheSet]

theorem cacheGet_cacheSet_other (cache : List (String × Val)) (k k' : String) (v : Val) (h : k' ≠ k) :
    cacheGet (cacheSet cache k v) k' = cacheGet cache k' := by
  have hk : (k == k') = false := by simpa using fun e => h e.symm
  simp only [cacheGet, cacheSet, List.find?_cons, hk]
  congr 1
  induction cache with
  | nil => rfl
  | cons a l ih =>
    by_cases ha : a.1 = k'
    · simp [h, ha]
    · have ha' : (a.1 == k') = false := by simpa using ha
      by_cases hak : (a.1 != k) = true
      · simp only [List.filter_cons, hak, List.find?_cons, ha', if_true]
        exact ih
      · simp only [List.filter_cons, hak, List.find?_cons, ha']
        exact ih

/-! ### the message handler -/

theorem recv_cls (tbls : List EnumTbl) (ex : Exotic) (st : SubSt) (m : Msg) :
    (recv tbls ex st m).cls = st.cls := by
  unfold recv
  dsimp only
  repeat' split
  all_goals rfl

theorem recv_closed (tbls : List EnumTbl) (ex : Exotic) (st : SubSt) (m : Msg) :
    (recv tbls ex st m).closed = st.closed := by
  unfold recv
  dsimp only
  repeat' split
  all_goals rfl

theorem recv_sent (tbls : List EnumTbl) (ex : Exotic) (st : SubSt) (m : Msg) :
    (recv tbls ex st m).sent = st.sent := by
  unfold recv
  dsimp only
  repeat' split
  all_goals rfl

theorem recv_frame (tbls : List EnumTbl) (ex : Exotic) (st : SubSt) (m : Msg)
    (h : m.status ≠ .ok ∨ m.subunit ≠ some st.cls.id ∨ m.value = none ∨
         (∀ f, m.fn = some f → findFn st.cls f = none)) :
    (recv tbls ex st m).cache = st.cache := by
  unfold recv
  dsimp only
  repeat' split
  all_goals try rfl
  all_goals
    exfalso
    rcases h with h | h | h | h
    · contradiction
    · contradiction
    · simp_all
    · simp_all

/-- the cache component of `recv`, without the bookkeeping of the other fields -/
def recvCache (tbls : List EnumTbl) (ex : Exotic) (st : SubSt) (m : Msg) : List (String × Val) :=
  if st.closed then st.cache else
  if m.status ≠ .ok then st.cache else
  if m.subunit ≠ some st.cls.id then st.cache else
  match m.fn, m.value with
  | some g, some v =>
    match findFn st.cls g with
    | some fn =>
      match decodeFull tbls ex fn.conv v with
      | some val => cacheSet st.cache g val
      | none => st.cache
    | none => st.cache
  | _, _ => st.cache

/-- the state after the SYS:VERSION synchronisation check of `recv` -/
def recvSync (st : SubSt) (m : Msg) : SubSt :=
  if !st.initialized && m.subunit == some "SYS" && m.fn == some "VERSION"
  then { st with event := true } else st

/-- the part of `recv` after the synchronisation check -/
def recvRest (tbls : List EnumTbl) (ex : Exotic) (st : SubSt) (m : Msg) : SubSt :=
  if m.subunit ≠ some st.cls.id then st else
  match m.fn, m.value with
  | some f, some v =>
    match findFn st.cls f with
    | some fn =>
      match decodeFull tbls ex fn.conv v with
      | some val =>
        let st := { st with cache := cacheSet st.cache f val }
        if st.initialized then { st with calls := st.calls ++ st.cbs.map (fun cb => ⟨cb, f, val⟩) } else st
      | none => st
    | none => st
  | _, _ => st

theorem recv_eq (tbls : List EnumTbl) (ex : Exotic) (st : SubSt) (m : Msg) :
    recv tbls ex st m =
      if st.closed then st else if m.status ≠ .ok then st else recvRest tbls ex (recvSync st m) m := rfl

theorem recvSync_cls (st : SubSt) (m : Msg) : (recvSync st m).cls = st.cls := by
  unfold recvSync; split <;> rfl

theorem recvSync_cache (st : SubSt) (m : Msg) : (recvSync st m).cache = st.cache := by
  unfold recvSync; split <;> rfl

theorem recvRest_cache (tbls : List EnumTbl) (ex : Exotic) (st : SubSt) (m : Msg) :
    (recvRest tbls ex st m).cache =
      if m.subunit ≠ some st.cls.id then st.cache else
      match m.fn, m.value with
      | some g, some v =>
        match findFn st.cls g with
        | some fn =>
          match decodeFull tbls ex fn.conv v with
          | some val => cacheSet st.cache g val
          | none => st.cache
        | none => st.cache
      | _, _ => st.cache := by
  unfold recvRest
  dsimp only
  split
  · rfl
  split
  · split
    · split
      · split <;> rfl
      · rfl
    · rfl
  · rfl

theorem recv_cache (tbls : List EnumTbl) (ex : Exotic) (st : SubSt) (m : Msg) :
    (recv tbls ex st m).cache = recvCache tbls ex st m := by
  rw [recv_eq]
  unfold recvCache
  split
  · rfl
  split
  · rfl
  rw [recvRest_cache, recvSync_cls, recvSync_cache]

theorem recv_cacheGet (tbls : List EnumTbl) (ex : Exotic) (c : Cls) (hc : clsOk c = true)
    (f : Fn) (hf : f ∈ c.fns) (st : SubSt) (hcls : st.cls = c) (hcl : st.closed = false) (m : Msg) :
    cacheGet (recv tbls ex st m).cache f.name =
      (reports tbls ex c f m).or (cacheGet st.cache f.name) := by
  have hfind := findFn_of_clsOk c hc f hf
  rw [recv_cache]
  unfold recvCache
  by_cases hm : m.status = .ok ∧ m.subunit = some c.id ∧ m.fn = some f.name
  · obtain ⟨h1, h2, h3⟩ := hm
    simp only [reports, h1, h2, h3, and_self, if_true]
    simp only [hcl, hcls]
    cases hv : m.value with
    | none => simp
    | some v =>
      simp only [hfind, Option.bind_some]
      cases hd : decodeFull tbls ex f.conv v with
      | none => simp
      | some val => simp [cacheGet_cacheSet_same]
  · simp only [reports, hm, if_false, Option.none_or]
    simp only [hcl, hcls, Bool.false_eq_true, if_false]
    split
    · rfl
    split
    · rfl
    split
    · rename_i g v hg hv
      split
      · split
        · apply cacheGet_cacheSet_other
          intro hgf
          apply hm
          simp_all
        · rfl
      · rfl
    · rfl

theorem foldl_recv_sent (tbls : List EnumTbl) (ex : Exotic) (st : SubSt) (h : List Msg) :
    (h.foldl (recv tbls ex) st).sent = st.sent := by
  induction h generalizing st with
  | nil => rfl
  | cons m h ih => rw [List.foldl_cons, ih, recv_sent]

theorem foldl_recv_cls (tbls : List EnumTbl) (ex : Exotic) (st : SubSt) (h : List Msg) :
    (h.foldl (recv tbls ex) st).cls = st.cls := by
  induction h generalizing st with
  | nil => rfl
  | cons m h ih => rw [List.foldl_cons, ih, recv_cls]

theorem foldl_recv_cacheGet (tbls : List EnumTbl) (ex : Exotic) (c : Cls) (hc : clsOk c = true)
    (f : Fn) (hf : f ∈ c.fns) (h : List Msg) (st : SubSt) (hcls : st.cls = c)
    (hcl : st.closed = false) :
    cacheGet (h.foldl (recv tbls ex) st).cache f.name =
      (lastReported tbls ex c f h).or (cacheGet st.cache f.name) := by
  induction h generalizing st with
  | nil => simp [lastReported]
  | cons m h ih =>
    rw [List.foldl_cons, ih (recv tbls ex st m) (by rw [recv_cls, hcls]) (by rw [recv_closed, hcl]),
      recv_cacheGet tbls ex c hc f hf st hcls hcl m]
    simp only [lastReported, List.reverse_cons, List.findSome?_append, List.findSome?_cons,
      List.findSome?_nil]
    cases List.findSome? (reports tbls ex c f) h.reverse <;> cases reports tbls ex c f m <;> simp

theorem read_is_last (tbls : List EnumTbl) (ex : Exotic) (c : Cls) (hc : clsOk c = true)
    (f : Fn) (hf : f ∈ c.fns) (hget : f.get = true) (h : List Msg) :
    readAttr (h.foldl (recv tbls ex) (SubSt.new c)) f.attr = .value (lastReported tbls ex c f h) := by
  unfold readAttr
  rw [foldl_recv_cls]
  have hattr : findAttr (SubSt.new c).cls f.attr = some f := findAttr_of_clsOk c hc f hf
  rw [hattr]
  simp only [hget, Bool.not_true, Bool.false_eq_true, if_false]
  rw [foldl_recv_cacheGet tbls ex c hc f hf h (SubSt.new c) rfl rfl]
  simp [SubSt.new]

end Ynca
