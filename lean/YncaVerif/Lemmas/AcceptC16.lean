import YncaVerif.Lemmas.AcceptProj
import YncaVerif.Lemmas.C16
import YncaVerif.Lemmas.NoHang
/-! C16 on the observed trace: after a `close()` that was begun on a started connection has returned, no write is observed. -/
namespace Ynca.L4
open Ynca.L4.C12L

/-- what a scan of the observed events knows about `close()` calls on a connection whose reader thread had been started -/
structure Scan where
  started : Bool := false
  pending : List Tid := []      -- threads inside such a close()
  closed : Bool := false        -- such a close() has returned

def scanStep (sc : Scan) : Ev → Scan
  | .input .startR => { sc with started := true }
  | .input (.callClose t) => if sc.started then { sc with pending := t :: sc.pending } else sc
  | .output (.callRet t) => if sc.pending.contains t then { sc with pending := sc.pending.filter (· != t), closed := true } else sc
  | _ => sc

def scan (pre : List (Nat × Ev)) : Scan := pre.foldl (fun sc e => scanStep sc e.2) {}

theorem scan_snoc (pre : List (Nat × Ev)) (e : Nat × Ev) : scan (pre ++ [e]) = scanStep (scan pre) e.2 := by
  simp [scan, List.foldl_append]

structure ScanInv (sc : Scan) (s : St) : Prop where
  started : sc.started = true → s.rpc ≠ .notStarted
  pending : ∀ t ∈ sc.pending, ∃ pc, upcOf s t = .closing pc
  closed : sc.closed = true → s.closeReturned = true

theorem rpc_started_step (P : Params) (s s' : St) (l : Label) (o : Option Obs) (h : s.rpc ≠ .notStarted)
    (hs : step P s l = some (s', o)) : s'.rpc ≠ .notStarted := by
  cases l <;> simp only [step] at hs
  case s => l4_split_s hs <;> simp_all [enqueue]
  case r => l4_split_r hs <;> simp_all [enqueue]
  case u t => l4_split_u hs <;> simp_all
  all_goals l4_split_other hs <;> simp_all

@[simp] theorem closeReturned_setUpc' (s : St) (t : Tid) (p : UPc) : (setUpc s t p).closeReturned = s.closeReturned := by
  unfold setUpc; split <;> rfl

theorem closeReturned_step (P : Params) (s s' : St) (l : Label) (o : Option Obs) (h : s.closeReturned = true)
    (hs : step P s l = some (s', o)) : s'.closeReturned = true := by
  cases l <;> simp only [step] at hs
  case s => l4_split_s hs <;> simp_all [enqueue]
  case r => l4_split_r hs <;> simp_all [enqueue]
  case u t => l4_split_u hs <;> simp_all
  all_goals l4_split_other hs <;> simp_all

/-- a step that does not show `callRet t` leaves a thread that is inside close() inside close() -/
theorem closing_step (P : Params) (s s' : St) (l : Label) (o : Option Obs) (t : Tid) (pc : CPc) (h : upcOf s t = .closing pc)
    (ho : o ≠ some (.callRet t)) (hs : step P s l = some (s', o)) : ∃ pc', upcOf s' t = .closing pc' := by
  cases l <;> simp only [step] at hs
  case s => l4_split_s hs <;> exact ⟨pc, by simpa [upcOf, enqueue] using h⟩
  case r => l4_split_r hs <;> exact ⟨pc, by simpa [upcOf, enqueue] using h⟩
  case u t' =>
    by_cases e : t = t'
    · subst e
      l4_split_u hs <;> simp_all [upcOf_setUpc]
    · l4_split_u hs <;> (rw [upcOf_setUpc, if_neg e]; exact ⟨pc, by simpa [upcOf, enqueue] using h⟩)
  case call t' x =>
    split at hs
    · rename_i hm
      simp at hs; obtain ⟨rfl, rfl⟩ := hs
      by_cases e : t = t'
      · subst e; have := NoHang.mayCall_idle s t hm; rw [h] at this; cases this
      · rw [upcOf_setUpc, if_neg e]; exact ⟨pc, h⟩
    · simp at hs
  case callClose t' =>
    split at hs
    · rename_i hm
      by_cases e : t = t'
      · subst e; have := NoHang.mayCall_idle s t hm; rw [h] at this; cases this
      · (repeat' split at hs) <;> simp at hs <;> obtain ⟨rfl, rfl⟩ := hs <;>
          (rw [upcOf_setUpc, if_neg e]; exact ⟨pc, by simpa [upcOf, enqueue] using h⟩)
    · simp at hs
  all_goals (l4_split_other hs <;> exact ⟨pc, by simpa [upcOf, enqueue] using h⟩)

/-- the step that shows `callRet t` of a thread inside close() is the return of that close() -/
theorem callRet_of_closing (P : Params) (s s' : St) (l : Label) (t : Tid) (pc : CPc) (h : upcOf s t = .closing pc)
    (hs : step P s l = some (s', some (.callRet t))) : s'.closeReturned = true := by
  cases l <;> simp only [step] at hs
  case s => l4_split_s hs
  case r => l4_split_r hs
  case u t' =>
    by_cases e : t = t'
    · subst e
      l4_split_u hs <;> simp_all
    · l4_split_u hs <;> simp_all
  all_goals (l4_split_other hs)

theorem input_no_callRet (P : Params) (s s' : St) (l : Label) (o : Option Obs) (t : Tid) (hl : isThreadLabel l = false)
    (h : step P s l = some (s', o)) : o ≠ some (.callRet t) := by
  cases l <;> simp [isThreadLabel] at hl <;> l4_step_cases h <;> simp

theorem callClose_started (P : Params) (s s' : St) (t : Tid) (o : Option Obs) (hr : s.rpc ≠ .notStarted)
    (hs : step P s (.callClose t) = some (s', o)) : ∃ pc, upcOf s' t = .closing pc := by
  simp only [step] at hs
  split at hs
  · (repeat' split at hs) <;> simp at hs <;> (try (obtain ⟨rfl, rfl⟩ := hs)) <;> (try exact ⟨_, by rw [upcOf_setUpc, if_pos rfl]⟩)
    all_goals simp_all
  · simp at hs

theorem startR_started (P : Params) (s s' : St) (o : Option Obs) (hs : step P s .startR = some (s', o)) : s'.rpc ≠ .notStarted := by
  simp only [step] at hs
  split at hs
  · simp at hs; obtain ⟨rfl, rfl⟩ := hs; simp
  · simp at hs

/-- steps that are not the return of a pending close() keep the invariant for an unchanged scan -/
theorem scanInv_keep (P : Params) (sc : Scan) (s s' : St) (l : Label) (o : Option Obs) (hi : ScanInv sc s)
    (ho : ∀ t ∈ sc.pending, o ≠ some (.callRet t)) (hs : step P s l = some (s', o)) : ScanInv sc s' :=
  ⟨fun h => rpc_started_step P s s' l o (hi.started h) hs,
   fun t ht => by obtain ⟨pc, hpc⟩ := hi.pending t ht; exact closing_step P s s' l o t pc hpc (ho t ht) hs,
   fun h => closeReturned_step P s s' l o (hi.closed h) hs⟩

theorem Expl.scanInv {P : Params} {hidden : List String} {pre : List (Nat × Ev)} {s : St} (h : Expl P hidden pre s)
    (hv : hidden.contains "ret" = false) : ScanInv (scan pre) s := by
  induction h with
  | init => exact ⟨by simp [scan], by simp [scan], by simp [scan]⟩
  | @tau pre s s' l o _ hl hs ho ih =>
    refine scanInv_keep P _ s s' l o ih ?_ hs
    intro t _ e
    subst e
    simp [hiddenObs, obsKind] at ho
    simp at hv
    exact hv ho
  | @input pre s s' l o _ hl hs ih =>
    rw [scan_snoc]
    have hno : ∀ t, o ≠ some (.callRet t) := fun t => input_no_callRet P s s' l o t hl hs
    cases l with
    | startR =>
      have := scanInv_keep P _ s s' _ o ih (fun t _ => hno t) hs
      exact ⟨fun _ => startR_started P s s' o hs, this.pending, this.closed⟩
    | callClose t =>
      simp only [scanStep]
      split
      · rename_i hst
        have hk := scanInv_keep P _ s s' _ o ih (fun t _ => hno t) hs
        refine ⟨hk.started, ?_, hk.closed⟩
        intro t' ht'
        rcases List.mem_cons.mp ht' with rfl | ht'
        · exact callClose_started P s s' t' o (ih.started hst) hs
        · exact hk.pending t' ht'
      · exact scanInv_keep P _ s s' _ o ih (fun t _ => hno t) hs
    | _ => exact scanInv_keep P _ s s' _ o ih (fun t _ => hno t) hs
  | @output pre s s' l o _ hl hs hvis ih =>
    rw [scan_snoc]
    by_cases hc : ∃ t, o = .callRet t ∧ (scan pre).pending.contains t = true
    · obtain ⟨t, rfl, hp⟩ := hc
      simp only [scanStep, hp, if_true]
      have hmem : t ∈ (scan pre).pending := by simpa using hp
      obtain ⟨pc, hpc⟩ := ih.pending t hmem
      refine ⟨fun h => rpc_started_step P s s' l _ (ih.started h) hs, ?_, fun _ => callRet_of_closing P s s' l t pc hpc hs⟩
      intro t' ht'
      simp only [List.mem_filter, bne_iff_ne, ne_eq] at ht'
      obtain ⟨pc', hpc'⟩ := ih.pending t' ht'.1
      exact closing_step P s s' l _ t' pc' hpc' (by intro e; injection e with e; injection e with e; exact ht'.2 e.symm) hs
    · have hsame : scanStep (scan pre) (Ev.output o) = scan pre := by
        cases o <;> simp only [scanStep]
        rename_i t
        split
        · rename_i hp; exact absurd ⟨t, rfl, hp⟩ hc
        · rfl
      rw [hsame]
      refine scanInv_keep P _ s s' l (some o) ih ?_ hs
      intro t ht e
      injection e with e
      exact hc ⟨t, e, by simpa using ht⟩
  | @hiddenOutput pre s o _ ho ih =>
    rw [scan_snoc]
    have hsame : scanStep (scan pre) (Ev.output o) = scan pre := by
      cases o <;> simp only [scanStep]
      simp [obsKind] at ho
      simp at hv
      exact absurd ho hv
    rw [hsame]; exact ih
  | snapshot _ _ ih => rw [scan_snoc]; exact ih
  | stop _ ih => rw [scan_snoc]; exact ih

/-- prefixes of an explained trace are explained -/
theorem Expl.prefix {P : Params} {hidden : List String} {evs : List (Nat × Ev)} {s : St} (h : Expl P hidden evs s) :
    ∀ a b, evs = a ++ b → ∃ s1, Expl P hidden a s1 := by
  induction h with
  | init => intro a b e; have : a = [] := by cases a <;> simp_all
            subst this; exact ⟨_, Expl.init⟩
  | tau _ _ _ _ ih => exact ih
  | @input pre s s' l o he hl hs ih =>
    intro a b e
    rcases List.eq_nil_or_concat b with rfl | ⟨b', x, rfl⟩
    · simp at e; subst e; exact ⟨_, he.input hl hs⟩
    · rw [List.concat_eq_append, ← List.append_assoc] at e
      have := List.append_inj_left' e rfl
      exact ih a b' this
  | @output pre s s' l o he hl hs hv ih =>
    intro a b e
    rcases List.eq_nil_or_concat b with rfl | ⟨b', x, rfl⟩
    · simp at e; subst e; exact ⟨_, he.output hl hs hv⟩
    · rw [List.concat_eq_append, ← List.append_assoc] at e
      exact ih a b' (List.append_inj_left' e rfl)
  | @hiddenOutput pre s o he ho ih =>
    intro a b e
    rcases List.eq_nil_or_concat b with rfl | ⟨b', x, rfl⟩
    · simp at e; subst e; exact ⟨_, he.hiddenOutput ho⟩
    · rw [List.concat_eq_append, ← List.append_assoc] at e
      exact ih a b' (List.append_inj_left' e rfl)
  | @snapshot pre s es he hq ih =>
    intro a b e
    rcases List.eq_nil_or_concat b with rfl | ⟨b', x, rfl⟩
    · simp at e; subst e; exact ⟨_, he.snapshot hq⟩
    · rw [List.concat_eq_append, ← List.append_assoc] at e
      exact ih a b' (List.append_inj_left' e rfl)
  | @stop pre s he ih =>
    intro a b e
    rcases List.eq_nil_or_concat b with rfl | ⟨b', x, rfl⟩
    · simp at e; subst e; exact ⟨_, he.stop⟩
    · rw [List.concat_eq_append, ← List.append_assoc] at e
      exact ih a b' (List.append_inj_left' e rfl)

/-- an explained trace that ends with a visible write: the write is a model step from a state explaining what came before -/
theorem Expl.last_write {P : Params} {hidden : List String} {evs : List (Nat × Ev)} {s : St} (h : Expl P hidden evs s)
    (hv : hidden.contains "write" = false) :
    ∀ pre tm x, evs = pre ++ [(tm, Ev.output (.write x))] →
      ∃ s0 s1 l, Expl P hidden pre s0 ∧ step P s0 l = some (s1, some (.write x)) := by
  induction h with
  | init => intro pre tm x e; simp at e
  | tau _ _ _ _ ih => exact ih
  | @input pre0 s s' l o he hl hs ih =>
    intro pre tm x e
    have := List.append_inj_right' e rfl
    simp at this
  | @output pre0 s s' l o he hl hs hvis ih =>
    intro pre tm x e
    have h1 := List.append_inj_left' e rfl
    have h2 := List.append_inj_right' e rfl
    simp at h2
    subst h1
    obtain ⟨_, rfl⟩ := h2
    exact ⟨s, s', l, he, hs⟩
  | @hiddenOutput pre0 s o he ho ih =>
    intro pre tm x e
    have h2 := List.append_inj_right' e rfl
    simp at h2
    obtain ⟨_, rfl⟩ := h2
    simp [obsKind] at ho
    simp at hv
    exact absurd ho hv
  | snapshot _ _ ih => intro pre tm x e; have := List.append_inj_right' e rfl; simp at this
  | stop _ ih => intro pre tm x e; have := List.append_inj_right' e rfl; simp at this

end Ynca.L4
