import YncaVerif.Lemmas.L4Defs
/-! Projection lemmas for `setUpc` and friends, shared by the L4 invariant proofs. -/
namespace Ynca.L4

section proj
variable (s : St) (t : Tid) (p : UPc)
@[simp] theorem setUpc_rpc : (setUpc s t p).rpc = s.rpc := by unfold setUpc; split <;> rfl
@[simp] theorem setUpc_spc : (setUpc s t p).spc = s.spc := by unfold setUpc; split <;> rfl
@[simp] theorem setUpc_portOpen : (setUpc s t p).portOpen = s.portOpen := by unfold setUpc; split <;> rfl
@[simp] theorem setUpc_alive : (setUpc s t p).alive = s.alive := by unfold setUpc; split <;> rfl
@[simp] theorem setUpc_discCbSet : (setUpc s t p).discCbSet = s.discCbSet := by unfold setUpc; split <;> rfl
@[simp] theorem setUpc_discCalls : (setUpc s t p).discCalls = s.discCalls := by unfold setUpc; split <;> rfl
@[simp] theorem setUpc_closeStarted : (setUpc s t p).closeStarted = s.closeStarted := by unfold setUpc; split <;> rfl
@[simp] theorem setUpc_closeReturned : (setUpc s t p).closeReturned = s.closeReturned := by unfold setUpc; split <;> rfl
@[simp] theorem setUpc_kaPending : (setUpc s t p).kaPending = s.kaPending := by unfold setUpc; split <;> rfl
@[simp] theorem setUpc_probesStarted : (setUpc s t p).probesStarted = s.probesStarted := by unfold setUpc; split <;> rfl
@[simp] theorem setUpc_probesAtClear : (setUpc s t p).probesAtClear = s.probesAtClear := by unfold setUpc; split <;> rfl
@[simp] theorem setUpc_decisions : (setUpc s t p).decisions = s.decisions := by unfold setUpc; split <;> rfl
@[simp] theorem setUpc_connected : (setUpc s t p).connected = s.connected := by unfold setUpc; split <;> rfl
@[simp] theorem setUpc_msgCbs : (setUpc s t p).msgCbs = s.msgCbs := by unfold setUpc; split <;> rfl
@[simp] theorem setUpc_queue : (setUpc s t p).queue = s.queue := by unfold setUpc; split <;> rfl
@[simp] theorem setUpc_lock : (setUpc s t p).lock = s.lock := by unfold setUpc; split <;> rfl
@[simp] theorem setUpc_published : (setUpc s t p).published = s.published := by unfold setUpc; split <;> rfl
end proj

theorem lookup_setPc_same (cs : List (Tid × UPc)) (t : Tid) (p : UPc) : lookup (setPc cs t p) t = p := by
  simp [lookup, setPc]

theorem lookup_setPc_other (cs : List (Tid × UPc)) (t t' : Tid) (p : UPc) (h : t' ≠ t) :
    lookup (setPc cs t p) t' = lookup cs t' := by
  have h1 : (t == t') = false := by simp; exact fun e => h e.symm
  simp only [lookup, setPc, List.find?_cons, h1]
  congr 2
  induction cs with
  | nil => rfl
  | cons c cs ih =>
    obtain ⟨c1, c2⟩ := c
    by_cases hc : c1 = t
    · subst hc
      simp only [List.filter_cons, bne_self_eq_false, Bool.false_eq_true, ↓reduceIte, List.find?_cons, h1, ih]
    · by_cases hc' : c1 = t'
      · subst hc'
        simp [hc]
      · have e1 : (c1 != t) = true := by simp [hc]
        have e2 : (c1 == t') = false := by simp [hc']
        simp only [List.filter_cons, e1, ↓reduceIte, List.find?_cons, e2, ih]

@[simp] theorem upcOf_setUpc_same (s : St) (t : Tid) (p : UPc) : upcOf (setUpc s t p) t = p := by
  unfold upcOf setUpc
  by_cases h : t = tidR
  · simp [h]
  · simp [h, lookup_setPc_same]

theorem upcOf_setUpc_other (s : St) (t t' : Tid) (p : UPc) (h : t' ≠ t) :
    upcOf (setUpc s t p) t' = upcOf s t' := by
  unfold upcOf setUpc
  by_cases ht : t = tidR
  · subst ht; simp [h]
  · by_cases ht' : t' = tidR
    · simp [ht, ht']
    · simp [ht, ht', lookup_setPc_other _ _ _ _ h]

/-- full case analysis of one `step`: every enabled branch with the successor and observation substituted -/
syntax "l4_step_cases " ident : tactic
set_option hygiene false in
macro_rules
  | `(tactic| l4_step_cases $hs:ident) => `(tactic|
    (simp only [step, stepS, stepR, stepU, stepClose, enqueue] at $hs:ident
     (repeat' split at $hs:ident) <;> simp at $hs:ident <;> obtain ⟨rfl, rfl⟩ := $hs:ident))

end Ynca.L4
