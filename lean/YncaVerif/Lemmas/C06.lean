import YncaVerif.Model.Subunit
/-! Helper lemmas for C06 (initial query list). -/
namespace Ynca

/-- the queries of the initialisable functions, in handler order, duplicates included -/
def rawQueries (fns : List Fn) : List String :=
  (fns.filter (fun f => !f.noInit)).map (fun f => f.init.getD f.name)

/-- `List.eraseDups` has no duplicates -/
theorem nodup_eraseDups : ∀ (n : Nat) (l : List String), l.length ≤ n → l.eraseDups.Nodup
  | _, [], _ => by simp
  | 0, _ :: _, h => by simp at h
  | n + 1, a :: as, h => by
    rw [List.eraseDups_cons, List.nodup_cons]
    constructor
    · simp
    · apply nodup_eraseDups n
      have := List.length_filter_le (fun b => !b == a) as
      simp only [List.length_cons] at h
      omega

/-- the deduplicating loop of `initQueries`, from an arbitrary accumulator -/
theorem initLoop_eq (fns : List Fn) (acc : List String) :
    fns.foldl (fun acc f =>
      if f.noInit then acc else
      let q := f.init.getD f.name
      if acc.contains q then acc else acc ++ [q]) acc
    = acc ++ ((rawQueries fns).filter (fun q => !acc.contains q)).eraseDups := by
  induction fns generalizing acc with
  | nil => simp [rawQueries]
  | cons f fns ih =>
    rw [List.foldl_cons]
    by_cases hn : f.noInit = true
    · simp only [hn, if_true]
      rw [ih]
      simp [rawQueries, hn]
    · have hn' : f.noInit = false := by simpa using hn
      simp only [hn', Bool.false_eq_true, if_false]
      by_cases hc : acc.contains (f.init.getD f.name) = true
      · simp only [hc, if_true]
        rw [ih]
        have hraw : rawQueries (f :: fns) = f.init.getD f.name :: rawQueries fns := by
          simp [rawQueries, hn']
        rw [hraw, List.filter_cons]
        simp only [hc, Bool.not_true, Bool.false_eq_true, if_false]
      · have hc' : acc.contains (f.init.getD f.name) = false := by simpa using hc
        simp only [hc', Bool.false_eq_true, if_false]
        rw [ih]
        have hraw : rawQueries (f :: fns) = f.init.getD f.name :: rawQueries fns := by
          simp [rawQueries, hn']
        rw [hraw, List.filter_cons]
        simp only [hc', Bool.not_false, if_true]
        rw [List.eraseDups_cons, List.filter_filter, List.append_assoc]
        simp only [List.singleton_append]
        congr 3
        apply List.filter_congr
        intro x _
        simp only [List.contains_eq_mem, List.mem_append, List.mem_singleton]
        by_cases h1 : x ∈ acc <;> by_cases h2 : x = f.init.getD f.name <;> simp [h1, h2]

theorem initQueries_eq_eraseDups (c : Cls) :
    initQueries c =
      ((c.fns.filter (fun f => !f.noInit)).map (fun f => f.init.getD f.name)).eraseDups := by
  unfold initQueries
  rw [initLoop_eq]
  simp only [List.contains_nil, Bool.not_false, List.nil_append, rawQueries]
  congr 1
  exact List.filter_eq_self.mpr (fun _ _ => rfl)

theorem initQueries_nodup (c : Cls) : (initQueries c).Nodup := by
  rw [initQueries_eq_eraseDups]
  exact nodup_eraseDups _ _ (Nat.le_refl _)

theorem initQueries_complete (c : Cls) (f : Fn) (hf : f ∈ c.fns) (h : f.noInit = false) :
    f.init.getD f.name ∈ initQueries c := by
  rw [initQueries_eq_eraseDups, List.mem_eraseDups, List.mem_map]
  exact ⟨f, by simp [hf, h], rfl⟩

theorem initQueries_sound (c : Cls) (q : String) (hq : q ∈ initQueries c) :
    ∃ f ∈ c.fns, f.noInit = false ∧ f.init.getD f.name = q := by
  rw [initQueries_eq_eraseDups, List.mem_eraseDups, List.mem_map] at hq
  obtain ⟨f, hf, rfl⟩ := hq
  simp only [List.mem_filter, Bool.not_eq_true'] at hf
  exact ⟨f, hf.1, hf.2, rfl⟩

end Ynca
