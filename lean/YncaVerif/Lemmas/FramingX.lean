import YncaVerif.Lemmas.Framing
/-! Helper lemmas for C02x (framing is lossless, reported lines and the kept tail hold no terminator,
    the decomposition is unique, the number of packets is the number of terminators). -/
namespace Ynca

section
variable {α : Type} [DecidableEq α]

/-- wire image over an arbitrary alphabet -/
def wireG (a b : α) (lines : List (List α)) (tail : List α) : List α :=
  (lines.map (· ++ [a, b])).flatten ++ tail

/-- `splitFirst` cuts the input at a terminator: nothing is lost -/
theorem splitFirst_some_eq (a b : α) (l p r : List α)
    (h : splitFirst a b l = some (p, r)) : l = p ++ a :: b :: r := by
  fun_induction splitFirst a b l generalizing p r with
  | case1 => simp at h
  | case2 => simp at h
  | case3 x y rest hxy =>
    simp at h; obtain ⟨rfl, rfl⟩ := h; obtain ⟨rfl, rfl⟩ := hxy; rfl
  | case4 x y rest hxy p' r' heq ih =>
    simp at h; obtain ⟨rfl, rfl⟩ := h
    rw [ih p' r' heq]; rfl
  | case5 x y rest hxy heq => simp at h

/-- the part before the first terminator holds no terminator -/
theorem splitFirst_some_prefix_none (a b : α) (l p r : List α)
    (h : splitFirst a b l = some (p, r)) : splitFirst a b p = none := by
  fun_induction splitFirst a b l generalizing p r with
  | case1 => simp at h
  | case2 => simp at h
  | case3 x y rest hxy => simp at h; obtain ⟨rfl, rfl⟩ := h; rfl
  | case4 x y rest hxy p' r' heq ih =>
    simp at h; obtain ⟨rfl, rfl⟩ := h
    have hp := ih p' r' heq
    have he := splitFirst_some_eq a b (y :: rest) p' r' heq
    -- `x :: p'` : either `p' = []` (then a single symbol) or `p' = y :: _`
    cases p' with
    | nil => simp [splitFirst]
    | cons z q =>
      have hz : z = y := by
        have := congrArg List.head? he; simp at this; exact this.symm
      subst hz
      simp [splitFirst, hxy, hp]
  | case5 x y rest hxy heq => simp at h

/-- **lossless**: the packets with their terminators, followed by the remainder, are the input -/
theorem splitAll_lossless (a b : α) (l : List α) :
    wireG a b (splitAll a b l).1 (splitAll a b l).2 = l := by
  induction hn : l.length using Nat.strongRecOn generalizing l with
  | ind n ih =>
    cases h : splitFirst a b l with
    | none => simp [splitAll_none a b l h, wireG]
    | some pr =>
      obtain ⟨p, r⟩ := pr
      have hlen := splitFirst_length a b l p r h
      have hr := ih r.length (by omega) r rfl
      rw [splitAll_some a b l p r h]
      have he := splitFirst_some_eq a b l p r h
      simp only [wireG, List.map_cons, List.flatten_cons] at hr ⊢
      rw [List.append_assoc, hr, he]; simp

/-- every packet `splitAll` reports holds no terminator -/
theorem splitAll_lines_none (a b : α) (l : List α) :
    ∀ p ∈ (splitAll a b l).1, splitFirst a b p = none := by
  induction hn : l.length using Nat.strongRecOn generalizing l with
  | ind n ih =>
    cases h : splitFirst a b l with
    | none => simp [splitAll_none a b l h]
    | some pr =>
      obtain ⟨p, r⟩ := pr
      have hlen := splitFirst_length a b l p r h
      have hr := ih r.length (by omega) r rfl
      rw [splitAll_some a b l p r h]
      intro q hq
      simp only [List.mem_cons] at hq
      rcases hq with rfl | hq
      · exact splitFirst_some_prefix_none a b l q r h
      · exact hr q hq

/-- generic round trip (the byte-level instance is `splitAll_wire`) -/
theorem splitAll_wireG (a b : α) (hab : a ≠ b) (lines : List (List α)) (tail : List α)
    (hl : ∀ l ∈ lines, splitFirst a b l = none) (ht : splitFirst a b tail = none) :
    splitAll a b (wireG a b lines tail) = (lines, tail) := by
  induction lines with
  | nil => simpa [wireG] using splitAll_none a b tail ht
  | cons l ls ih =>
    have hl' := hl l (by simp)
    have ih' := ih (fun x hx => hl x (by simp [hx]))
    have h := splitFirst_append_term a b hab l (wireG a b ls tail) hl'
    have e : wireG a b (l :: ls) tail = l ++ a :: b :: wireG a b ls tail := by simp [wireG]
    rw [e, splitAll_some a b _ l (wireG a b ls tail) h, ih']

/-- number of non-overlapping terminators, scanning from the left -/
def countTerm (a b : α) : List α → Nat
  | [] => 0
  | [_] => 0
  | x :: y :: rest =>
    if x = a ∧ y = b then countTerm a b rest + 1 else countTerm a b (y :: rest)

theorem countTerm_of_none (a b : α) (l : List α) (h : splitFirst a b l = none) :
    countTerm a b l = 0 := by
  fun_induction splitFirst a b l with
  | case1 => simp [countTerm]
  | case2 => simp [countTerm]
  | case3 x y rest hxy => simp at h
  | case4 x y rest hxy p' r' heq ih => simp at h
  | case5 x y rest hxy heq ih => simp [countTerm, hxy, ih heq]

theorem countTerm_of_some (a b : α) (l p r : List α) (h : splitFirst a b l = some (p, r)) :
    countTerm a b l = countTerm a b r + 1 := by
  fun_induction splitFirst a b l generalizing p r with
  | case1 => simp at h
  | case2 => simp at h
  | case3 x y rest hxy => simp at h; obtain ⟨rfl, rfl⟩ := h; simp [countTerm, hxy]
  | case4 x y rest hxy p' r' heq ih =>
    simp at h; obtain ⟨rfl, rfl⟩ := h
    simp [countTerm, hxy, ih p' r' heq]
  | case5 x y rest hxy heq => simp at h

/-- the number of packets is the number of terminators -/
theorem splitAll_length (a b : α) (l : List α) :
    (splitAll a b l).1.length = countTerm a b l := by
  induction hn : l.length using Nat.strongRecOn generalizing l with
  | ind n ih =>
    cases h : splitFirst a b l with
    | none => simp [splitAll_none a b l h, countTerm_of_none a b l h]
    | some pr =>
      obtain ⟨p, r⟩ := pr
      have hlen := splitFirst_length a b l p r h
      have hr := ih r.length (by omega) r rfl
      rw [splitAll_some a b l p r h, countTerm_of_some a b l p r h]
      simp [hr]
end

instance (l : List UInt8) : Decidable (NoCRLF l) :=
  inferInstanceAs (Decidable (splitFirst CR LF l = none))

/-- an input that contains the terminator is split -/
theorem splitFirst_infix_ne_none {α : Type} [DecidableEq α] (a b : α) (s t : List α) :
    splitFirst a b (s ++ a :: b :: t) ≠ none := by
  induction s with
  | nil => simp [splitFirst]
  | cons x s ih =>
    cases hm : s ++ a :: b :: t with
    | nil => simp at hm
    | cons y rest =>
      rw [hm] at ih
      simp only [List.cons_append, hm, splitFirst]
      split
      · simp
      · cases hs : splitFirst a b (y :: rest) with
        | none => exact absurd hs ih
        | some pr => simp

/-- `splitFirst … = none` says the same as "no occurrence of `[a, b]` as a contiguous sublist" -/
theorem splitFirst_none_iff_not_infix {α : Type} [DecidableEq α] (a b : α) (l : List α) :
    splitFirst a b l = none ↔ ¬ [a, b] <:+: l := by
  constructor
  · intro h ⟨s, t, e⟩
    have e' : l = s ++ a :: b :: t := by rw [← e]; simp
    exact splitFirst_infix_ne_none a b s t (e' ▸ h)
  · intro h
    cases hs : splitFirst a b l with
    | none => rfl
    | some pr =>
      obtain ⟨p, r⟩ := pr
      exact absurd ⟨p, r, by rw [splitFirst_some_eq a b l p r hs]; simp⟩ h

end Ynca
