import YncaVerif.Lemmas.L4Defs
/-! Helper lemmas for C12. -/
namespace Ynca.L4.C12L

/-! ## `setUpc` only touches the caller programs -/
section setUpc
variable (s : St) (t : Tid) (p : UPc)
@[simp] theorem setUpc_now : (setUpc s t p).now = s.now := by unfold setUpc; split <;> rfl
@[simp] theorem setUpc_wire : (setUpc s t p).wire = s.wire := by unfold setUpc; split <;> rfl
@[simp] theorem setUpc_spc : (setUpc s t p).spc = s.spc := by unfold setUpc; split <;> rfl
@[simp] theorem setUpc_rpc : (setUpc s t p).rpc = s.rpc := by unfold setUpc; split <;> rfl
@[simp] theorem setUpc_queue : (setUpc s t p).queue = s.queue := by unfold setUpc; split <;> rfl
@[simp] theorem setUpc_lock : (setUpc s t p).lock = s.lock := by unfold setUpc; split <;> rfl
@[simp] theorem setUpc_closeStarted : (setUpc s t p).closeStarted = s.closeStarted := by unfold setUpc; split <;> rfl
@[simp] theorem setUpc_closeUnpub : (setUpc s t p).closeUnpub = s.closeUnpub := by unfold setUpc; split <;> rfl
@[simp] theorem setUpc_portOpen : (setUpc s t p).portOpen = s.portOpen := by unfold setUpc; split <;> rfl
@[simp] theorem setUpc_writeFault : (setUpc s t p).writeFault = s.writeFault := by unfold setUpc; split <;> rfl
@[simp] theorem setUpc_madeAt : (setUpc s t p).madeAt = s.madeAt := by unfold setUpc; split <;> rfl
@[simp] theorem setUpc_connMade : (setUpc s t p).connMade = s.connMade := by unfold setUpc; split <;> rfl
@[simp] theorem setUpc_published : (setUpc s t p).published = s.published := by unfold setUpc; split <;> rfl
@[simp] theorem setUpc_queueMade : (setUpc s t p).queueMade = s.queueMade := by unfold setUpc; split <;> rfl
end setUpc

theorem find?_filter_ne (cs : List (Tid × UPc)) (t t' : Tid) (h : t' ≠ t) :
    (cs.filter (·.1 != t)).find? (·.1 == t') = cs.find? (·.1 == t') := by
  induction cs with
  | nil => rfl
  | cons a cs ih =>
    by_cases ha : a.1 = t'
    · simp [ha, h]
    · by_cases hb : a.1 = t
      · simp [hb, ih, Ne.symm h]
      · simp [hb, ih, ha]

theorem lookup_setPc (cs : List (Tid × UPc)) (t t' : Tid) (p : UPc) :
    lookup (setPc cs t p) t' = if t' = t then p else lookup cs t' := by
  unfold lookup setPc
  by_cases h : t' = t
  · subst h; simp
  · have h' : (t == t') = false := by simp; exact fun e => h e.symm
    simp only [List.find?_cons, h', h, ↓reduceIte, find?_filter_ne cs t t' h]

theorem upcOf_setUpc (s : St) (t t' : Tid) (p : UPc) :
    upcOf (setUpc s t p) t' = if t' = t then p else upcOf s t' := by
  unfold upcOf setUpc
  by_cases ht : t = tidR
  · subst ht; by_cases h : t' = tidR <;> simp [h]
  · by_cases h : t' = tidR
    · subst h; have : ¬ tidR = t := fun e => ht e.symm
      simp [ht, this]
    · simp [ht, h, lookup_setPc]

/-! ## case analysis of one step -/

syntax "l4_split_s " ident : tactic
set_option hygiene false in
macro_rules | `(tactic| l4_split_s $hs:ident) => `(tactic|
  (unfold stepS at $hs:ident
   split at $hs:ident <;> (try split at $hs:ident) <;> (try split at $hs:ident) <;> simp at $hs:ident <;>
     obtain ⟨rfl, rfl⟩ := $hs:ident))

syntax "l4_split_r " ident : tactic
set_option hygiene false in
macro_rules | `(tactic| l4_split_r $hs:ident) => `(tactic|
  (unfold stepR at $hs:ident
   split at $hs:ident <;> (try split at $hs:ident) <;> (try split at $hs:ident) <;> simp at $hs:ident <;>
     obtain ⟨rfl, rfl⟩ := $hs:ident))

syntax "l4_split_u " ident : tactic
set_option hygiene false in
macro_rules | `(tactic| l4_split_u $hs:ident) => `(tactic|
  (unfold stepU at $hs:ident
   split at $hs:ident <;> (try unfold stepClose at $hs:ident) <;> (try split at $hs:ident) <;>
     (try split at $hs:ident) <;> simp at $hs:ident <;> obtain ⟨rfl, rfl⟩ := $hs:ident))

/-- the remaining labels (everything except `s`, `r`, `u`) -/
syntax "l4_split_other " ident : tactic
set_option hygiene false in
macro_rules | `(tactic| l4_split_other $hs:ident) => `(tactic|
  ((repeat' (split at $hs:ident)) <;> simp at $hs:ident <;> (try (obtain ⟨rfl, rfl⟩ := $hs:ident))))

/-! ## structural invariants -/

/-- the sender is created by `connection_made` (exactly once); nothing is written before -/
def I1 (s : St) : Prop :=
  ((s.rpc = .notStarted ∨ s.rpc = .made 0) → s.spc = .notStarted) ∧ (s.spc = .notStarted → s.wire = [])

theorem I1_step (P : Params) (s s' : St) (l : Label) (o : Option Obs) (hi : I1 s)
    (hs : step P s l = some (s', o)) : I1 s' := by
  unfold I1 at *
  cases l <;> simp only [step] at hs
  case s => l4_split_s hs <;> simp_all [enqueue]
  case r => l4_split_r hs <;> simp_all [enqueue]
  case u t => l4_split_u hs <;> simp_all
  all_goals l4_split_other hs <;> simp_all

theorem I1_inv (P : Params) (s : St) (h : Reachable P s) : I1 s :=
  reachable_induction P I1 (by simp [I1]) (fun s s' l o hi hs => I1_step P s s' l o hi hs) s h

/-- a thread that is inside `close()` past its first step -/
def closingPast : UPc → Bool
  | .closing pc => decide (pc ≠ .c0)
  | .idle => false
  | .submitting _ => false
  | .returning => false

@[simp] theorem closingPast_closing (pc : CPc) : closingPast (.closing pc) = decide (pc ≠ .c0) := rfl
@[simp] theorem closingPast_idle : closingPast .idle = false := rfl
@[simp] theorem closingPast_submitting (x : String) : closingPast (.submitting x) = false := rfl
@[simp] theorem closingPast_returning : closingPast .returning = false := rfl

theorem closingPast_upcOf_setUpc (s : St) (t t' : Tid) (p : UPc) :
    closingPast (upcOf (setUpc s t p) t') = if t' = t then closingPast p else closingPast (upcOf s t') := by
  rw [upcOf_setUpc]; split <;> rfl

/-- while no `close()` has cleared the disconnect callback and none was entered on an unpublished connection
    (the path that skips the clearing step), no thread is further inside `close()` -/
def I2 (s : St) : Prop := s.closeStarted = false → s.closeUnpub = false → ∀ t, closingPast (upcOf s t) = false

theorem I2_step (P : Params) (s s' : St) (l : Label) (o : Option Obs) (hi : I2 s)
    (hs : step P s l = some (s', o)) : I2 s' := by
  unfold I2 at *
  cases l <;> simp only [step] at hs
  case s => l4_split_s hs <;> simp_all [enqueue, upcOf]
  case r => l4_split_r hs <;> simp_all [enqueue, upcOf]
  case u t =>
    by_cases hc : s.closeStarted = false ∧ s.closeUnpub = false
    · have hpast : ∀ pc, upcOf s t = .closing pc → pc = .c0 := by
        intro pc h; have := hi hc.1 hc.2 t; rw [h] at this; simpa using this
      l4_split_u hs <;> (try simp only [closingPast_upcOf_setUpc] at *) <;> simp_all [upcOf]
    · l4_split_u hs <;> simp_all
  all_goals l4_split_other hs <;> (try simp only [closingPast_upcOf_setUpc] at *) <;> simp_all [upcOf]

theorem I2_inv (P : Params) (s : St) (h : Reachable P s) : I2 s :=
  reachable_induction P I2 (by simp [I2, upcOf, lookup, closingPast]) (fun s s' l o hi hs => I2_step P s s' l o hi hs) s h

theorem I2_c0 {s : St} (hi : I2 s) (hc : s.closeStarted = false) (hu : s.closeUnpub = false) (t : Tid) :
    ∀ pc, upcOf s t = .closing pc → pc = .c0 := by
  intro pc h; have := hi hc hu t; rw [h] at this; simpa using this

/-- the sender holds the transport lock exactly while writing -/
def holdsLock : SPc → Bool
  | .writing _ _ => true
  | .unlock => true
  | _ => false

@[simp] theorem holdsLock_notStarted : holdsLock .notStarted = false := rfl
@[simp] theorem holdsLock_waitGet (d : Nat) : holdsLock (.waitGet d) = false := rfl
@[simp] theorem holdsLock_timedOut : holdsLock .timedOut = false := rfl
@[simp] theorem holdsLock_got (m : Item) : holdsLock (.got m) = false := rfl
@[simp] theorem holdsLock_logging (t : String) (i : Option Nat) : holdsLock (.logging t i) = false := rfl
@[simp] theorem holdsLock_lockWait (t : String) (i : Option Nat) : holdsLock (.lockWait t i) = false := rfl
@[simp] theorem holdsLock_writing (t : String) (i : Option Nat) : holdsLock (.writing t i) = true := rfl
@[simp] theorem holdsLock_unlock : holdsLock .unlock = true := rfl
@[simp] theorem holdsLock_sleeping (u : Nat) : holdsLock (.sleeping u) = false := rfl
@[simp] theorem holdsLock_done : holdsLock .done = false := rfl
@[simp] theorem holdsLock_dead : holdsLock .dead = false := rfl

/-- while no `close()` has begun, only the sender takes the transport lock -/
def I3 (s : St) : Prop :=
  s.closeStarted = false → s.closeUnpub = false → s.lock = if holdsLock s.spc then some tidS else none

theorem I3_step (P : Params) (s s' : St) (l : Label) (o : Option Obs) (h1 : I1 s) (h2 : I2 s) (hi : I3 s)
    (hs : step P s l = some (s', o)) : I3 s' := by
  unfold I3 at *
  unfold I1 at h1
  cases l <;> simp only [step] at hs
  case s => l4_split_s hs <;> simp_all [enqueue]
  case r => l4_split_r hs <;> simp_all [enqueue]
  case u t =>
    by_cases hc : s.closeStarted = false ∧ s.closeUnpub = false
    · have hpast := I2_c0 h2 hc.1 hc.2 t
      l4_split_u hs <;> simp_all
    · l4_split_u hs <;> simp_all
  all_goals l4_split_other hs <;> simp_all

/-! ## the gap invariant -/

@[simp] theorem lossBegun_notStarted : lossBegun .notStarted = false := rfl
@[simp] theorem lossBegun_made (k : Nat) : lossBegun (.made k) = false := rfl
@[simp] theorem lossBegun_setEvent : lossBegun .setEvent = false := rfl
@[simp] theorem lossBegun_loopTest : lossBegun .loopTest = false := rfl
@[simp] theorem lossBegun_reading (n : Nat) (d : Option Nat) : lossBegun (.reading n d) = false := rfl
@[simp] theorem lossBegun_split : lossBegun .split = false := rfl
@[simp] theorem lossBegun_line0 (l : String) : lossBegun (.line0 l) = false := rfl
@[simp] theorem lossBegun_line1 (l : String) : lossBegun (.line1 l) = false := rfl
@[simp] theorem lossBegun_line2 (l : String) (b : Bool) : lossBegun (.line2 l b) = false := rfl
@[simp] theorem lossBegun_deliver (l : String) (td : List Nat) : lossBegun (.deliver l td) = false := rfl
@[simp] theorem lossBegun_inCb (l : String) (cb : Nat) (td : List Nat) : lossBegun (.inCb l cb td) = false := rfl
@[simp] theorem lossBegun_lost (k : Nat) : lossBegun (.lost k) = true := rfl
@[simp] theorem lossBegun_lostJoin (d : Nat) : lossBegun (.lostJoin d) = true := rfl
@[simp] theorem lossBegun_inDiscCb : lossBegun .inDiscCb = true := rfl
@[simp] theorem lossBegun_done : lossBegun .done = true := rfl

/-- the part of "up" that can only be lost, never regained -/
def Good (s : St) : Prop :=
  lossBegun s.rpc = false ∧ s.closeStarted = false ∧ s.closeUnpub = false ∧ s.writeFault = false ∧ s.portOpen = true

theorem Good_back (P : Params) (s s' : St) (l : Label) (o : Option Obs)
    (hs : step P s l = some (s', o)) (hg : Good s') : Good s := by
  unfold Good at *
  cases l <;> simp only [step] at hs
  case s => l4_split_s hs <;> simp_all [enqueue]
  case r => l4_split_r hs <;> simp_all [enqueue]
  case u t => l4_split_u hs <;> simp_all
  all_goals l4_split_other hs <;> simp_all

theorem tick_elim (P : Params) (s s' : St) (d : Nat) (o : Option Obs)
    (hs : step P s (.tick d) = some (s', o)) :
    s' = { s with now := s.now + d } ∧ stepS P s = none ∧
      ∀ dl ∈ deadlines s, s.now + d ≤ dl ∨ dl ≤ s.now := by
  simp only [step] at hs
  split at hs
  · simp at hs
  · rename_i h
    split at hs
    · rename_i hd
      simp at hs
      refine ⟨hs.1.symm, ?_, ?_⟩
      · have : canMove P s = false := by simpa using (not_or.mp h).2
        unfold canMove at this
        simp only [Bool.or_eq_false_iff] at this
        simpa using this.1.1.1.1.1
      · intro dl hdl
        have := List.all_eq_true.mp hd dl hdl
        simpa using this
    · simp at hs

/-- what a disabled sender looks like -/
theorem stepS_none (P : Params) (s : St) (h : stepS P s = none) :
    match s.spc with
    | .waitGet dl => s.queue = [] ∧ s.now < dl
    | .sleeping u => s.now < u
    | .lockWait _ _ => s.lock ≠ none
    | .notStarted => True
    | .done => True
    | .dead => True
    | _ => False := by
  cases hpc : s.spc <;> simp only [stepS, hpc] at h ⊢ <;> (try trivial)
  case waitGet dl => split at h <;> simp_all
  case got m => cases m <;> simp at h
  all_goals (split at h <;> (try split at h) <;> simp_all)

/-- time passes only while the sender is blocked, and not beyond its deadline -/
theorem tick_sender (P : Params) (s s' : St) (d : Nat) (o : Option Obs)
    (hs : step P s (.tick d) = some (s', o)) :
    s' = { s with now := s.now + d } ∧
    match s.spc with
    | .waitGet dl => s.queue = [] ∧ s.now + d ≤ dl
    | .sleeping u => s.now + d ≤ u
    | .lockWait _ _ => s.lock ≠ none
    | .notStarted => True
    | .done => True
    | .dead => True
    | _ => False := by
  obtain ⟨h1, hS, hdl⟩ := tick_elim P s s' d o hs
  refine ⟨h1, ?_⟩
  have hn := stepS_none P s hS
  cases hpc : s.spc <;> simp only [hpc] at hn ⊢ <;> try trivial
  · rename_i dl
    have := hdl dl (by simp [deadlines, hpc])
    exact ⟨hn.1, by omega⟩
  · rename_i u
    have := hdl u (by simp [deadlines, hpc])
    omega

def lastTxOf (w : List (Nat × String × Option Nat)) (m : Nat) : Nat :=
  match w.getLast? with
  | some e => e.1
  | none => m

theorem lastTx_eq (s : St) : lastTx s = lastTxOf s.wire s.madeAt := rfl
@[simp] theorem lastTxOf_nil (m : Nat) : lastTxOf [] m = m := rfl
@[simp] theorem lastTxOf_concat (w : List (Nat × String × Option Nat)) (e : Nat × String × Option Nat) (m : Nat) :
    lastTxOf (w ++ [e]) m = e.1 := by simp [lastTxOf]

/-- the timed invariant, as a function of the sender's program counter -/
def gapB (P : Params) (pc : SPc) (q : List Item) (now lt : Nat) : Prop :=
  match pc with
  | .waitGet dl => (q ≠ [] ∧ now ≤ lt + P.spacing + P.kaInterval) ∨ (dl ≤ lt + P.spacing + P.kaInterval ∧ now ≤ dl)
  | .timedOut => now ≤ lt + P.spacing + P.kaInterval
  | .got _ => now ≤ lt + P.spacing + P.kaInterval
  | .logging _ _ => now ≤ lt + P.spacing + P.kaInterval
  | .lockWait _ _ => now ≤ lt + P.spacing + P.kaInterval
  | .writing _ _ => now ≤ lt + P.spacing + P.kaInterval
  | .unlock => now = lt
  | .sleeping u => u = lt + P.spacing ∧ now ≤ u
  | _ => True

theorem gapB_enqueue (P : Params) (pc : SPc) (q : List Item) (x : Item) (now lt : Nat)
    (h : gapB P pc q now lt) : gapB P pc (q ++ [x]) now lt := by
  cases pc <;> simp_all [gapB] <;> omega

def I4 (P : Params) (s : St) : Prop := Good s → gapB P s.spc s.queue s.now (lastTxOf s.wire s.madeAt)

theorem I4_step (P : Params) (s s' : St) (l : Label) (o : Option Obs) (h1 : I1 s) (h3 : I3 s) (hi : I4 P s)
    (hs : step P s l = some (s', o)) : I4 P s' := by
  intro hg'
  have hg := Good_back P s s' l o hs hg'
  have hb := hi hg
  unfold Good at hg hg'
  unfold I1 at h1
  have hlock := h3 hg.2.1 hg.2.2.1
  clear hi h3
  cases l
  case tick d =>
    obtain ⟨rfl, ht⟩ := tick_sender P s _ d o hs
    clear hs
    cases hpc : s.spc <;> simp only [hpc] at ht hb hlock ⊢ <;> simp_all [gapB]
  all_goals simp only [step] at hs
  case s =>
    l4_split_s hs <;> simp_all [gapB, enqueue]
    all_goals first | omega | (right; omega)
  case r =>
    l4_split_r hs <;> simp_all [enqueue]
    all_goals first | exact gapB_enqueue _ _ _ _ _ _ hb | (simp [gapB])
  case u t =>
    l4_split_u hs <;> simp_all
    all_goals first | exact gapB_enqueue _ _ _ _ _ _ hb
  all_goals l4_split_other hs <;> simp_all

/-- all structural and timed invariants together -/
def GapInv (P : Params) (s : St) : Prop := I1 s ∧ I2 s ∧ I3 s ∧ I4 P s

theorem GapInv_reachable (P : Params) (s : St) (h : Reachable P s) : GapInv P s := by
  refine reachable_induction P (GapInv P) ?_ ?_ s h
  · refine ⟨by simp [I1], by simp [I2, upcOf, lookup], by simp [I3], ?_⟩
    intro _; simp [gapB]
  · intro s s' l o ⟨h1, h2, h3, h4⟩ hs
    exact ⟨I1_step P s s' l o h1 hs, I2_step P s s' l o h2 hs, I3_step P s s' l o h1 h2 h3 hs,
      I4_step P s s' l o h1 h3 h4 hs⟩

/-- **gap**: while the connection is up and healthy, the time since the last transmission is at most one
    command spacing plus the keep-alive interval -/
theorem gap_inv (P : Params) (s : St) (h : Reachable P s)
    (hup : s.spc ≠ .notStarted ∧ s.spc ≠ .done ∧ s.spc ≠ .dead ∧ lossBegun s.rpc = false ∧
      s.closeStarted = false ∧ s.closeUnpub = false ∧ s.writeFault = false ∧ s.portOpen = true) :
    s.now ≤ lastTx s + P.spacing + P.kaInterval := by
  obtain ⟨_, _, _, h4⟩ := GapInv_reachable P s h
  obtain ⟨hn, hd, hx, hl, hc, hu, hw, hp⟩ := hup
  have hb := h4 ⟨hl, hc, hu, hw, hp⟩
  rw [lastTx_eq]
  cases hpc : s.spc <;> simp_all [gapB] <;> omega

/-! ## the first two transmissions are probes -/

/-- how many keep-alives `connection_made` has certainly put into the pipeline -/
def need : RPc → Nat
  | .notStarted => 0
  | .made k => if k = 3 then 1 else 0
  | _ => 2

@[simp] theorem need_notStarted : need .notStarted = 0 := rfl
@[simp] theorem need_made (k : Nat) : need (.made k) = if k = 3 then 1 else 0 := rfl
@[simp] theorem need_setEvent : need .setEvent = 2 := rfl
@[simp] theorem need_loopTest : need .loopTest = 2 := rfl
@[simp] theorem need_reading (n : Nat) (d : Option Nat) : need (.reading n d) = 2 := rfl
@[simp] theorem need_split : need .split = 2 := rfl
@[simp] theorem need_line0 (l : String) : need (.line0 l) = 2 := rfl
@[simp] theorem need_line1 (l : String) : need (.line1 l) = 2 := rfl
@[simp] theorem need_line2 (l : String) (b : Bool) : need (.line2 l b) = 2 := rfl
@[simp] theorem need_deliver (l : String) (td : List Nat) : need (.deliver l td) = 2 := rfl
@[simp] theorem need_inCb (l : String) (cb : Nat) (td : List Nat) : need (.inCb l cb td) = 2 := rfl
@[simp] theorem need_lost (k : Nat) : need (.lost k) = 2 := rfl
@[simp] theorem need_lostJoin (d : Nat) : need (.lostJoin d) = 2 := rfl
@[simp] theorem need_inDiscCb : need .inDiscCb = 2 := rfl
@[simp] theorem need_done : need .done = 2 := rfl

/-- callers see the protocol only after `connection_made` has queued both keep-alives -/
def I5 (s : St) : Prop := (s.connMade = true → need s.rpc = 2) ∧ (s.connMade = false → s.published = false)

theorem I5_step (P : Params) (s s' : St) (l : Label) (o : Option Obs) (hi : I5 s)
    (hs : step P s l = some (s', o)) : I5 s' := by
  unfold I5 at *
  cases l <;> simp only [step] at hs
  case s => l4_split_s hs <;> simp_all [enqueue]
  case r => l4_split_r hs <;> simp_all [enqueue]
  case u t => l4_split_u hs <;> simp_all
  all_goals l4_split_other hs <;> simp_all

theorem loss_back (P : Params) (s s' : St) (l : Label) (o : Option Obs)
    (hs : step P s l = some (s', o)) (hg : lossBegun s'.rpc = false) : lossBegun s.rpc = false := by
  cases l <;> simp only [step] at hs
  case s => l4_split_s hs <;> simp_all [enqueue]
  case r => l4_split_r hs <;> simp_all
  case u t => l4_split_u hs <;> simp_all
  all_goals l4_split_other hs <;> simp_all

/-- is this transmission a keep-alive probe? -/
def isP (t : String) (i : Option Nat) : Bool := decide (i = none ∧ t = probe)

def itemP : Item → Bool
  | .keepAlive => true
  | .cmd _ _ => false
  | .exit => false

/-- the item the sender has taken out of the queue and not yet written -/
def held : SPc → List Bool
  | .got m => [itemP m]
  | .logging t i => [isP t i]
  | .lockWait t i => [isP t i]
  | .writing t i => [isP t i]
  | _ => []

@[simp] theorem held_notStarted : held .notStarted = [] := rfl
@[simp] theorem held_waitGet (d : Nat) : held (.waitGet d) = [] := rfl
@[simp] theorem held_timedOut : held .timedOut = [] := rfl
@[simp] theorem held_got (m : Item) : held (.got m) = [itemP m] := rfl
@[simp] theorem held_logging (t : String) (i : Option Nat) : held (.logging t i) = [isP t i] := rfl
@[simp] theorem held_lockWait (t : String) (i : Option Nat) : held (.lockWait t i) = [isP t i] := rfl
@[simp] theorem held_writing (t : String) (i : Option Nat) : held (.writing t i) = [isP t i] := rfl
@[simp] theorem held_unlock : held .unlock = [] := rfl
@[simp] theorem held_sleeping (u : Nat) : held (.sleeping u) = [] := rfl
@[simp] theorem held_done : held .done = [] := rfl
@[simp] theorem held_dead : held .dead = [] := rfl
@[simp] theorem itemP_keepAlive : itemP .keepAlive = true := rfl
@[simp] theorem itemP_cmd (i : Nat) (t : String) : itemP (.cmd i t) = false := rfl
@[simp] theorem itemP_exit : itemP .exit = false := rfl
@[simp] theorem isP_probe : isP probe none = true := by simp [isP]
@[simp] theorem isP_some (t : String) (i : Nat) : isP t (some i) = false := by simp [isP]

/-- everything written, held by the sender, or queued, in transmission order: is it a probe? -/
def pipeOf (w : List (Nat × String × Option Nat)) (pc : SPc) (q : List Item) : List Bool :=
  w.map (fun e => isP e.2.1 e.2.2) ++ (held pc ++ q.map itemP)

def T2 (l : List Bool) : Prop := ∀ b ∈ l.take 2, b = true

theorem T2_append (l : List Bool) (x : Bool) (h : T2 l) (hx : 2 ≤ l.length ∨ x = true) : T2 (l ++ [x]) := by
  intro b hb
  rw [List.take_append, List.mem_append] at hb
  rcases hb with hb | hb
  · exact h b hb
  · rcases hx with hx | hx
    · have : 2 - l.length = 0 := by omega
      simp [this] at hb
    · have := List.mem_of_mem_take hb
      simp at this; rw [this, hx]

def pipeInv (w : List (Nat × String × Option Nat)) (pc : SPc) (q : List Item) (n : Nat) : Prop :=
  T2 (pipeOf w pc q) ∧ n ≤ (pipeOf w pc q).length

theorem pipeInv_enqueue (w : List (Nat × String × Option Nat)) (pc : SPc) (q : List Item) (x : Item) (n n' : Nat)
    (h : pipeInv w pc q n) (hx : n = 2 ∨ itemP x = true) (hn : n' ≤ n + 1) : pipeInv w pc (q ++ [x]) n' := by
  have e : pipeOf w pc (q ++ [x]) = pipeOf w pc q ++ [itemP x] := by simp [pipeOf]
  unfold pipeInv at *
  rw [e]
  refine ⟨T2_append _ _ h.1 ?_, ?_⟩
  · rcases hx with hx | hx
    · left; omega
    · right; exact hx
  · simp; omega

def W2 (w : List (Nat × String × Option Nat)) : Prop := ∀ e ∈ w.take 2, isP e.2.1 e.2.2 = true

theorem pipeInv_wire (w : List (Nat × String × Option Nat)) (pc : SPc) (q : List Item) (n : Nat)
    (h : pipeInv w pc q n) : W2 w := by
  intro e he
  apply h.1
  unfold pipeOf
  rw [List.take_append, List.mem_append]
  left
  rw [← List.map_take]
  exact List.mem_map_of_mem he

theorem pipeInv_timedOut (w : List (Nat × String × Option Nat)) (q : List Item) (n d : Nat)
    (h : pipeInv w .timedOut q n) : pipeInv w (.waitGet d) (q ++ [.keepAlive]) n :=
  pipeInv_enqueue w (.waitGet d) q .keepAlive n n (by simpa [pipeInv, pipeOf] using h) (Or.inr rfl) (Nat.le_succ n)

theorem pipeInv_write (w : List (Nat × String × Option Nat)) (q : List Item) (n now : Nat) (t : String) (i : Option Nat)
    (h : pipeInv w (.writing t i) q n) : pipeInv (w ++ [(now, t, i)]) .unlock q n := by
  simpa [pipeInv, pipeOf] using h

/-- while the reader has not begun `connection_lost`: the first two elements of the pipeline are probes -/
def I6 (s : St) : Prop :=
  lossBegun s.rpc = false →
    W2 s.wire ∧
    ((s.spc ≠ .notStarted ∧ s.spc ≠ .done ∧ s.spc ≠ .dead) → pipeInv s.wire s.spc s.queue (need s.rpc))

theorem I6_step (P : Params) (s s' : St) (l : Label) (o : Option Obs) (h1 : I1 s) (h5 : I5 s) (hi : I6 s)
    (hs : step P s l = some (s', o)) : I6 s' := by
  intro hl'
  have hl := loss_back P s s' l o hs hl'
  obtain ⟨hw, hp⟩ := hi hl
  unfold I1 at h1
  unfold I5 at h5
  clear hi
  cases l <;> simp only [step] at hs
  case s =>
    l4_split_s hs <;> simp_all [enqueue]
    all_goals first
      | exact hw
      | (simpa [pipeInv, pipeOf] using hp)
      | exact pipeInv_timedOut _ _ _ _ hp
      | exact ⟨pipeInv_wire _ _ _ _ (pipeInv_write _ _ _ _ _ _ hp), pipeInv_write _ _ _ _ _ _ hp⟩
  case r =>
    l4_split_r hs <;> simp_all [enqueue]
    · simp [pipeInv, pipeOf, T2]
    · intro a b c; exact pipeInv_enqueue _ _ _ _ _ _ (hp a b c) (Or.inr rfl) (Nat.le_refl _)
    · intro a b c; exact pipeInv_enqueue _ _ _ _ _ _ (hp a b c) (Or.inr rfl) (Nat.le_refl _)
  case u t =>
    l4_split_u hs <;> simp_all
    intro a b c; exact pipeInv_enqueue _ _ _ _ _ _ (hp a b c) (Or.inl rfl) (Nat.le_succ _)
  all_goals l4_split_other hs <;> simp_all

def ProbeInv (s : St) : Prop := I1 s ∧ I5 s ∧ I6 s

theorem ProbeInv_reachable (P : Params) (s : St) (h : Reachable P s) : ProbeInv s := by
  refine reachable_induction P ProbeInv ?_ ?_ s h
  · refine ⟨by simp [I1], by simp [I5], ?_⟩
    intro _; simp [W2]
  · intro s s' l o ⟨h1, h5, h6⟩ hs
    exact ⟨I1_step P s s' l o h1 hs, I5_step P s s' l o h5 hs, I6_step P s s' l o h1 h5 h6 hs⟩

/-- **two probes first**: as long as the reader has not begun `connection_lost` (whose drain loop may throw the
    queued keep-alives away), the first two transmissions of a connection are keep-alive probes -/
theorem first_two_probes (P : Params) (s : St) (h : Reachable P s) (hl : lossBegun s.rpc = false) :
    ∀ e ∈ s.wire.take 2, e.2.2 = none ∧ e.2.1 = probe := by
  obtain ⟨_, _, h6⟩ := ProbeInv_reachable P s h
  intro e he
  have := (h6 hl).1 e he
  simpa [isP] using this

end Ynca.L4.C12L
