import YncaVerif.Lemmas.L4Defs
/-! Basic facts about the L4 model shared by the C01 / C08 / C20 invariants:
frame lemmas for `setUpc`, one-step reachability, and the "before connection_made" invariant. -/
namespace Ynca.L4

/-! ### `setUpc` only touches `callers` / `rcall` -/
section setUpc
variable (s : St) (t : Tid) (p : UPc)
@[simp] theorem setUpc_now : (setUpc s t p).now = s.now := by unfold setUpc; split <;> rfl
@[simp] theorem setUpc_wire : (setUpc s t p).wire = s.wire := by unfold setUpc; split <;> rfl
@[simp] theorem setUpc_spc : (setUpc s t p).spc = s.spc := by unfold setUpc; split <;> rfl
@[simp] theorem setUpc_rpc : (setUpc s t p).rpc = s.rpc := by unfold setUpc; split <;> rfl
@[simp] theorem setUpc_queue : (setUpc s t p).queue = s.queue := by unfold setUpc; split <;> rfl
@[simp] theorem setUpc_queueMade : (setUpc s t p).queueMade = s.queueMade := by unfold setUpc; split <;> rfl
@[simp] theorem setUpc_log : (setUpc s t p).log = s.log := by unfold setUpc; split <;> rfl
@[simp] theorem setUpc_submitted : (setUpc s t p).submitted = s.submitted := by unfold setUpc; split <;> rfl
@[simp] theorem setUpc_nextId : (setUpc s t p).nextId = s.nextId := by unfold setUpc; split <;> rfl
@[simp] theorem setUpc_rxLines : (setUpc s t p).rxLines = s.rxLines := by unfold setUpc; split <;> rfl
@[simp] theorem setUpc_published : (setUpc s t p).published = s.published := by unfold setUpc; split <;> rfl
@[simp] theorem setUpc_portOpen : (setUpc s t p).portOpen = s.portOpen := by unfold setUpc; split <;> rfl
@[simp] theorem setUpc_lock : (setUpc s t p).lock = s.lock := by unfold setUpc; split <;> rfl
@[simp] theorem setUpc_madeAt : (setUpc s t p).madeAt = s.madeAt := by unfold setUpc; split <;> rfl
end setUpc

@[simp] theorem wireTimes_setUpc (s : St) (t : Tid) (p : UPc) : wireTimes (setUpc s t p) = wireTimes s := by
  simp [wireTimes]
@[simp] theorem wireTexts_setUpc (s : St) (t : Tid) (p : UPc) : wireTexts (setUpc s t p) = wireTexts s := by
  simp [wireTexts]
@[simp] theorem logSends_setUpc (s : St) (t : Tid) (p : UPc) : logSends (setUpc s t p) = logSends s := by
  simp [logSends]
@[simp] theorem logRecvs_setUpc (s : St) (t : Tid) (p : UPc) : logRecvs (setUpc s t p) = logRecvs s := by
  simp [logRecvs]
@[simp] theorem submittedCmds_setUpc (s : St) (t : Tid) (p : UPc) : submittedCmds (setUpc s t p) = submittedCmds s := by
  simp [submittedCmds]

/-- reachability is closed under steps -/
theorem Reachable.step {P : Params} {s s' : St} {l : Label} {o : Option Obs}
    (h : Reachable P s) (hs : step P s l = some (s', o)) : Reachable P s' := by
  obtain ⟨ls, hr⟩ := h
  refine ⟨ls ++ [l], ?_⟩
  rw [run_append, hr]
  simp [run, hs]

/-! ### a frame property: which fields the "environment" steps may touch -/

/-- the fields the FIFO / log / timing invariants talk about (all but `rpc`) -/
structure SameCore (s s' : St) : Prop where
  now : s'.now = s.now
  wire : s'.wire = s.wire
  spc : s'.spc = s.spc
  queue : s'.queue = s.queue
  queueMade : s'.queueMade = s.queueMade
  log : s'.log = s.log
  submitted : s'.submitted = s.submitted
  nextId : s'.nextId = s.nextId
  rxLines : s'.rxLines = s.rxLines

theorem SameCore.wireTimes {s s' : St} (h : SameCore s s') : wireTimes s' = wireTimes s := by
  simp [Ynca.L4.wireTimes, h.wire]
theorem SameCore.wireTexts {s s' : St} (h : SameCore s s') : wireTexts s' = wireTexts s := by
  simp [Ynca.L4.wireTexts, h.wire]
theorem SameCore.logSends {s s' : St} (h : SameCore s s') : logSends s' = logSends s := by
  simp [Ynca.L4.logSends, h.log]
theorem SameCore.logRecvs {s s' : St} (h : SameCore s s') : logRecvs s' = logRecvs s := by
  simp [Ynca.L4.logRecvs, h.log]
theorem SameCore.submittedCmds {s s' : St} (h : SameCore s s') : submittedCmds s' = submittedCmds s := by
  simp [Ynca.L4.submittedCmds, h.submitted]

theorem SameCore.setUpc (s : St) (t : Tid) (p : UPc) : SameCore s (setUpc s t p) := by
  constructor <;> simp

theorem stepClose_core (P : Params) (s s' : St) (t : Tid) (pc : CPc) (o : Option Obs)
    (h : stepClose P s t pc = some (s', o)) : SameCore s s' ∧ s'.rpc = s.rpc := by
  cases pc <;> simp only [stepClose] at h
  all_goals (try split at h)
  all_goals first
    | (simp only [Option.some.injEq, Prod.mk.injEq] at h; obtain ⟨rfl, _⟩ := h
       exact ⟨by constructor <;> simp, by simp⟩)
    | simp at h

/-- reader before `connection_made` has created the queue and started the sender -/
def early (r : RPc) : Prop := r = .notStarted ∨ r = .made 0

def isLine0 : RPc → Option String
  | .line0 l => some l
  | _ => none

/-- how the reader's pc may change in a step that is neither `.r` nor touches the core fields -/
inductive RpcEnv : RPc → RPc → Prop
  | same (r : RPc) : RpcEnv r r
  | start : RpcEnv .notStarted (.made 0)
  | other (r r' : RPc) : ¬ early r → ¬ early r' → isLine0 r = none → isLine0 r' = none →
      (lossBegun r = true → lossBegun r' = true) → RpcEnv r r'

/-- coarse classification of the steps of the model -/
inductive StepKind (P : Params) (s s' : St) : Prop
  | tick (d : Nat) : s' = { s with now := s.now + d } → StepKind P s s'
  | sender (o : Option Obs) : stepS P s = some (s', o) → StepKind P s s'
  | submit (t : Tid) (text : String) : s.queueMade = true →
      s' = setUpc { s with queue := s.queue ++ [.cmd s.nextId text],
                           submitted := s.submitted ++ [(t, s.nextId, text)],
                           nextId := s.nextId + 1 } t .returning → StepKind P s s'
  | made0 : s.rpc = .made 0 →
      s' = { s with rpc := .made 1, queueMade := true, queue := [], spc := .waitGet (s.now + P.kaInterval), madeAt := s.now } →
      StepKind P s s'
  | enq (it : Item) (r' : RPc) : (∀ i t, it ≠ .cmd i t) → RpcEnv s.rpc r' → ¬ early s.rpc →
      s' = { enqueue s it with rpc := r' } → StepKind P s s'
  | drain (x : Item) (q : List Item) : s.rpc = .lost 1 → s.queue = x :: q → s' = { s with queue := q } → StepKind P s s'
  | split (l : String) (rest : List UInt8) : s.rpc = .split →
      s' = { s with rpc := .line0 l, buffer := rest, rxLines := s.rxLines ++ [l] } → StepKind P s s'
  | logRecv (l : String) : s.rpc = .line0 l →
      s' = { s with rpc := .line1 l, log := s.log ++ [.received l] } → StepKind P s s'
  | env : SameCore s s' → RpcEnv s.rpc s'.rpc → StepKind P s s'

theorem stepR_kind (P : Params) (s s' : St) (o : Option Obs)
    (h : stepR P s = some (s', o)) : StepKind P s s' := by
  unfold stepR at h
  split at h
  case h_1 hr => -- made 0
    simp only [Option.some.injEq, Prod.mk.injEq] at h
    exact .made0 hr h.1.symm
  case h_2 hr =>
    simp only [Option.some.injEq, Prod.mk.injEq] at h; obtain ⟨rfl, _⟩ := h
    exact .env (by constructor <;> rfl) (by rw [hr]; exact .other _ _ (by simp [early]) (by simp [early]) rfl rfl (by simp [lossBegun]))
  case h_3 hr =>
    simp only [Option.some.injEq, Prod.mk.injEq] at h
    exact .enq .keepAlive (.made 3) (by simp)
      (by rw [hr]; exact .other _ _ (by simp [early]) (by simp [early]) rfl rfl (by simp [lossBegun])) (by simp [hr, early]) h.1.symm
  case h_4 hr =>
    simp only [Option.some.injEq, Prod.mk.injEq] at h
    exact .enq .keepAlive .setEvent (by simp)
      (by rw [hr]; exact .other _ _ (by simp [early]) (by simp [early]) rfl rfl (by simp [lossBegun])) (by simp [hr, early]) h.1.symm
  case h_5 hr =>
    simp only [Option.some.injEq, Prod.mk.injEq] at h; obtain ⟨rfl, _⟩ := h
    exact .env (by constructor <;> rfl) (by rw [hr]; exact .other _ _ (by simp [early]) (by simp [early]) rfl rfl (by simp [lossBegun]))
  case h_6 hr =>
    split at h
    all_goals
      simp only [Option.some.injEq, Prod.mk.injEq] at h; obtain ⟨rfl, _⟩ := h
      exact .env (by constructor <;> rfl) (by rw [hr]; exact .other _ _ (by simp [early]) (by simp [early]) rfl rfl (by simp [lossBegun]))
  case h_7 hr =>
    split at h
    · split at h
      all_goals
        simp only [Option.some.injEq, Prod.mk.injEq] at h
        exact .split _ _ hr h.1.symm
    · simp only [Option.some.injEq, Prod.mk.injEq] at h; obtain ⟨rfl, _⟩ := h
      exact .env (by constructor <;> rfl) (by rw [hr]; exact .other _ _ (by simp [early]) (by simp [early]) rfl rfl (by simp [lossBegun]))
  case h_8 l hr =>
    simp only [Option.some.injEq, Prod.mk.injEq] at h
    exact .logRecv l hr h.1.symm
  case h_9 hr =>
    simp only [Option.some.injEq, Prod.mk.injEq] at h; obtain ⟨rfl, _⟩ := h
    exact .env (by constructor <;> rfl) (by rw [hr]; exact .other _ _ (by simp [early]) (by simp [early]) rfl rfl (by simp [lossBegun]))
  case h_10 hr =>
    simp only [Option.some.injEq, Prod.mk.injEq] at h; obtain ⟨rfl, _⟩ := h
    refine .env (by constructor <;> rfl) ?_
    rw [hr]; refine .other _ _ (by simp [early]) ?_ rfl ?_ (by simp [lossBegun])
    · simp only [early]; split <;> simp
    · simp only; split <;> simp [isLine0]
  case h_11 hr =>
    simp only [Option.some.injEq, Prod.mk.injEq] at h; obtain ⟨rfl, _⟩ := h
    exact .env (by constructor <;> rfl) (by rw [hr]; exact .other _ _ (by simp [early]) (by simp [early]) rfl rfl (by simp [lossBegun]))
  case h_12 hr =>
    simp only [Option.some.injEq, Prod.mk.injEq] at h; obtain ⟨rfl, _⟩ := h
    exact .env (by constructor <;> rfl) (by rw [hr]; exact .other _ _ (by simp [early]) (by simp [early]) rfl rfl (by simp [lossBegun]))
  case h_13 hr =>
    split at h
    · rename_i x q hq
      simp only [Option.some.injEq, Prod.mk.injEq] at h
      exact .drain x q hr hq h.1.symm
    · simp only [Option.some.injEq, Prod.mk.injEq] at h; obtain ⟨rfl, _⟩ := h
      exact .env (by constructor <;> rfl) (by rw [hr]; exact .other _ _ (by simp [early]) (by simp [early]) rfl rfl (by simp [lossBegun]))
  case h_14 hr =>
    simp only [Option.some.injEq, Prod.mk.injEq] at h
    exact .enq .exit _ (by simp)
      (by rw [hr]; exact .other _ _ (by simp [early]) (by simp [early]) rfl rfl (by simp [lossBegun])) (by simp [hr, early]) h.1.symm
  case h_15 hr =>
    split at h
    · simp only [Option.some.injEq, Prod.mk.injEq] at h; obtain ⟨rfl, _⟩ := h
      exact .env (by constructor <;> rfl) (by rw [hr]; exact .other _ _ (by simp [early]) (by simp [early]) rfl rfl (by simp [lossBegun]))
    · simp at h
  case h_16 hr =>
    split at h
    all_goals
      simp only [Option.some.injEq, Prod.mk.injEq] at h; obtain ⟨rfl, _⟩ := h
      exact .env (by constructor <;> rfl) (by rw [hr]; exact .other _ _ (by simp [early]) (by simp [early]) rfl rfl (by simp [lossBegun]))
  case h_17 hr =>
    simp only [Option.some.injEq, Prod.mk.injEq] at h; obtain ⟨rfl, _⟩ := h
    exact .env (by constructor <;> rfl) (by rw [hr]; exact .other _ _ (by simp [early]) (by simp [early]) rfl rfl (by simp [lossBegun]))
  case h_18 => simp at h

theorem SameCore.refl (s : St) : SameCore s s := by constructor <;> rfl

theorem step_kind (P : Params) (s s' : St) (l : Label) (o : Option Obs)
    (h : step P s l = some (s', o)) : StepKind P s s' := by
  cases l <;> simp only [step] at h
  case tick d =>
    split at h
    · simp at h
    · split at h
      · simp only [Option.some.injEq, Prod.mk.injEq] at h
        exact .tick d h.1.symm
      · simp at h
  case s => exact .sender o h
  case r => exact stepR_kind P s s' o h
  case u t =>
    unfold stepU at h
    split at h
    · simp at h
    · split at h
      · rename_i text _ hq
        simp only [Option.some.injEq, Prod.mk.injEq] at h
        simp only [Bool.and_eq_true] at hq
        exact .submit t text hq.2 h.1.symm
      · simp only [Option.some.injEq, Prod.mk.injEq] at h
        obtain ⟨rfl, _⟩ := h
        exact .env (SameCore.setUpc _ _ _) (by simp; exact .same _)
    · simp only [Option.some.injEq, Prod.mk.injEq] at h
      obtain ⟨rfl, _⟩ := h
      exact .env (SameCore.setUpc _ _ _) (by simp; exact .same _)
    · have := stepClose_core P s s' t _ o h
      exact .env this.1 (by rw [this.2]; exact .same _)
  case dev bytes =>
    split at h
    · simp only [Option.some.injEq, Prod.mk.injEq] at h; obtain ⟨rfl, _⟩ := h
      exact .env (by constructor <;> rfl) (.same _)
    · simp at h
  case fault =>
    simp only [Option.some.injEq, Prod.mk.injEq] at h; obtain ⟨rfl, _⟩ := h
    exact .env (by constructor <;> rfl) (.same _)
  case wfault =>
    simp only [Option.some.injEq, Prod.mk.injEq] at h; obtain ⟨rfl, _⟩ := h
    exact .env (by constructor <;> rfl) (.same _)
  case call t text =>
    split at h
    · simp only [Option.some.injEq, Prod.mk.injEq] at h; obtain ⟨rfl, _⟩ := h
      exact .env (SameCore.setUpc _ _ _) (by simp; exact .same _)
    · simp at h
  case callClose t =>
    split at h
    · split at h
      · simp only [Option.some.injEq, Prod.mk.injEq] at h; obtain ⟨rfl, _⟩ := h
        exact .env (SameCore.setUpc _ _ _) (by simp; exact .same _)
      · split at h
        · split at h
          all_goals
            simp only [Option.some.injEq, Prod.mk.injEq] at h; obtain ⟨rfl, _⟩ := h
            exact .env (by constructor <;> simp) (by simp; exact .same _)
        · simp only [Option.some.injEq, Prod.mk.injEq] at h; obtain ⟨rfl, _⟩ := h
          exact .env (SameCore.setUpc _ _ _) (by simp; exact .same _)
    · simp at h
  case reg t cb =>
    simp only [Option.some.injEq, Prod.mk.injEq] at h; obtain ⟨rfl, _⟩ := h
    exact .env (by constructor <;> rfl) (.same _)
  case unreg t cb =>
    simp only [Option.some.injEq, Prod.mk.injEq] at h; obtain ⟨rfl, _⟩ := h
    exact .env (by constructor <;> rfl) (.same _)
  case publish =>
    split at h
    · simp only [Option.some.injEq, Prod.mk.injEq] at h; obtain ⟨rfl, _⟩ := h
      exact .env (by constructor <;> rfl) (.same _)
    · simp at h
  case connectFailed =>
    split at h
    · simp only [Option.some.injEq, Prod.mk.injEq] at h; obtain ⟨rfl, _⟩ := h
      exact .env (by constructor <;> rfl) (.same _)
    · simp at h
  case startR =>
    split at h
    · rename_i hr
      simp only [Option.some.injEq, Prod.mk.injEq] at h; obtain ⟨rfl, _⟩ := h
      exact .env (by constructor <;> rfl) (by rw [hr]; exact .start)
    · simp at h
  case rCb cb =>
    split at h
    · rename_i l todo hr
      split at h
      · split at h
        all_goals
          simp only [Option.some.injEq, Prod.mk.injEq] at h; obtain ⟨rfl, _⟩ := h
          exact .env (by constructor <;> rfl) (by rw [hr]; exact .other _ _ (by simp [early]) (by simp [early]) rfl rfl (by simp [lossBegun]))
      · simp at h
    · simp at h
  case rGet to =>
    split at h
    · rename_i n dl hr
      repeat' split at h
      all_goals first
        | (simp only [Option.some.injEq, Prod.mk.injEq] at h; obtain ⟨rfl, _⟩ := h
           exact .env (by constructor <;> rfl) (by rw [hr]; exact .other _ _ (by simp [early]) (by simp [early]) rfl rfl (by simp [lossBegun])))
        | simp at h
    · simp at h
  case cbRet =>
    split at h
    all_goals (try split at h)
    all_goals first
      | (rename_i hr _
         simp only [Option.some.injEq, Prod.mk.injEq] at h; obtain ⟨rfl, _⟩ := h
         exact .env (by constructor <;> rfl) (by rw [hr]; exact .other _ _ (by simp [early]) (by simp [early]) rfl rfl (by simp [lossBegun])))
      | simp at h

/-- the sender's steps, one constructor per transition -/
inductive SKind (P : Params) (s s' : St) (o : Option Obs) : Prop
  | get (dl : Nat) (m : Item) (q : List Item) : s.spc = .waitGet dl → s.queue = m :: q →
      s' = { s with spc := .got m, queue := q } → o = none → SKind P s s' o
  | timeout (dl : Nat) : s.spc = .waitGet dl → s.queue = [] → dl ≤ s.now →
      s' = { s with spc := .timedOut } → o = none → SKind P s s' o
  | putKA : s.spc = .timedOut →
      s' = { enqueue s .keepAlive with spc := .waitGet (s.now + P.kaInterval) } → o = none → SKind P s s' o
  | exit : s.spc = .got .exit → s' = { s with spc := .done } → o = some .exitS → SKind P s s' o
  | flag : s.spc = .got .keepAlive →
      s' = { s with spc := .logging probe none, kaPending := true, probesStarted := s.probesStarted + 1 } →
      o = none → SKind P s s' o
  | classify (i : Nat) (t : String) : s.spc = .got (.cmd i t) → s' = { s with spc := .logging t (some i) } →
      o = none → SKind P s s' o
  | log (t : String) (i : Option Nat) : s.spc = .logging t i →
      s' = { s with spc := .lockWait t i, log := s.log ++ [.send t] } → o = some (.logged tidS) → SKind P s s' o
  | lock (t : String) (i : Option Nat) : s.spc = .lockWait t i →
      s' = { s with spc := .writing t i, lock := some tidS } → o = none → SKind P s s' o
  | die (t : String) (i : Option Nat) : s.spc = .writing t i →
      s' = { s with spc := .dead, lock := none } → o = some (.writeRejected t) → SKind P s s' o
  | write (t : String) (i : Option Nat) : s.spc = .writing t i →
      s' = { s with spc := .unlock, wire := s.wire ++ [(s.now, t, i)] } → o = some (.write t) → SKind P s s' o
  | unlock : s.spc = .unlock →
      s' = { s with spc := .sleeping (s.now + P.spacing), lock := none } → o = none → SKind P s s' o
  | wake (u : Nat) : s.spc = .sleeping u → u ≤ s.now →
      s' = { s with spc := .waitGet (s.now + P.kaInterval) } → o = none → SKind P s s' o

theorem stepS_kind (P : Params) (s s' : St) (o : Option Obs)
    (h : stepS P s = some (s', o)) : SKind P s s' o := by
  unfold stepS at h
  split at h
  case h_1 dl hp =>
    split at h
    · rename_i m q hq
      simp only [Option.some.injEq, Prod.mk.injEq] at h
      exact .get dl m q hp hq h.1.symm h.2.symm
    · rename_i hq
      split at h
      · rename_i hdl
        simp only [Option.some.injEq, Prod.mk.injEq] at h
        exact .timeout dl hp hq hdl h.1.symm h.2.symm
      · simp at h
  case h_2 hp =>
    simp only [Option.some.injEq, Prod.mk.injEq] at h
    exact .putKA hp h.1.symm h.2.symm
  case h_3 hp =>
    simp only [Option.some.injEq, Prod.mk.injEq] at h
    exact .exit hp h.1.symm h.2.symm
  case h_4 hp =>
    simp only [Option.some.injEq, Prod.mk.injEq] at h
    exact .flag hp h.1.symm h.2.symm
  case h_5 i t hp =>
    simp only [Option.some.injEq, Prod.mk.injEq] at h
    exact .classify i t hp h.1.symm h.2.symm
  case h_6 t i hp =>
    simp only [Option.some.injEq, Prod.mk.injEq] at h
    exact .log t i hp h.1.symm h.2.symm
  case h_7 t i hp =>
    split at h
    · simp only [Option.some.injEq, Prod.mk.injEq] at h
      exact .lock t i hp h.1.symm h.2.symm
    · simp at h
  case h_8 t i hp =>
    split at h
    · simp only [Option.some.injEq, Prod.mk.injEq] at h
      exact .die t i hp h.1.symm h.2.symm
    · split at h
      · simp only [Option.some.injEq, Prod.mk.injEq] at h
        exact .write t i hp h.1.symm h.2.symm
      · simp only [Option.some.injEq, Prod.mk.injEq] at h
        exact .die t i hp h.1.symm h.2.symm
  case h_9 hp =>
    simp only [Option.some.injEq, Prod.mk.injEq] at h
    exact .unlock hp h.1.symm h.2.symm
  case h_10 u hp =>
    split at h
    · rename_i hu
      simp only [Option.some.injEq, Prod.mk.injEq] at h
      exact .wake u hp hu h.1.symm h.2.symm
    · simp at h
  case h_11 => simp at h

theorem step_kind' (P : Params) (s s' : St) (l : Label) (o : Option Obs)
    (h : step P s l = some (s', o)) :
    StepKind P s s' := step_kind P s s' l o h

theorem RpcEnv.early_back {r r' : RPc} (h : RpcEnv r r') (he : early r') : early r := by
  cases h with
  | same => exact he
  | start => exact .inl rfl
  | other _ _ _ h2 => exact absurd he h2

theorem RpcEnv.loss_mono {r r' : RPc} (h : RpcEnv r r') (hl : lossBegun r' = false) : lossBegun r = false := by
  cases h with
  | same => exact hl
  | start => rfl
  | other _ _ _ _ _ _ h5 =>
    cases hr : lossBegun r with
    | false => rfl
    | true => rw [h5 hr] at hl; exact hl

theorem RpcEnv.line0_eq {r r' : RPc} (h : RpcEnv r r') : isLine0 r' = isLine0 r := by
  cases h with
  | same => rfl
  | start => rfl
  | other _ _ _ _ h3 h4 => rw [h3, h4]

/-- before `connection_made` has run its first step nothing has happened yet -/
def EarlyInv (s : St) : Prop :=
  early s.rpc → s.spc = .notStarted ∧ s.queueMade = false ∧ s.queue = [] ∧ s.submitted = [] ∧
    s.wire = [] ∧ s.log = [] ∧ s.rxLines = []

theorem earlyInv_step (P : Params) (s s' : St) (l : Label) (o : Option Obs) (hi : EarlyInv s)
    (hs : step P s l = some (s', o)) : EarlyInv s' := by
  intro he
  cases step_kind P s s' l o hs with
  | tick d h => subst h; exact hi he
  | sender o h =>
    have hk := stepS_kind P s s' o h
    cases hk <;> subst_vars <;> (have := hi he; simp_all)
  | submit t text hq h => subst h; have := hi (by simpa using he); simp_all
  | made0 hr h => subst h; simp [early] at he
  | enq it r' _ hre hne h => subst h; exact absurd (hre.early_back he) hne
  | drain x q hr hq h => subst h; simp [early, hr] at he
  | split l rest hr h => subst h; simp [early] at he
  | logRecv l hr h => subst h; simp [early] at he
  | env hc hre =>
    have := hi (hre.early_back he)
    simp [hc.spc, hc.queueMade, hc.queue, hc.submitted, hc.wire, hc.log, hc.rxLines, this]

theorem earlyInv (P : Params) (s : St) (h : Reachable P s) : EarlyInv s :=
  reachable_induction P EarlyInv (by intro _; simp) (earlyInv_step P) s h

/-- induction over reachable states with reachability of the source state available -/
theorem reachable_induction' (P : Params) (Inv : St → Prop) (h0 : Inv {})
    (hstep : ∀ s s' l o, Reachable P s → Inv s → step P s l = some (s', o) → Inv s') :
    ∀ s, Reachable P s → Inv s := by
  intro s hr
  have := reachable_induction P (fun s => Reachable P s ∧ Inv s) ⟨⟨[], rfl⟩, h0⟩
    (fun s s' l o hi hs => ⟨hi.1.step hs, hstep s s' l o hi.1 hi.2 hs⟩) s hr
  exact this.2

end Ynca.L4
