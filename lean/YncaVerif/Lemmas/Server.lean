import YncaVerif.Model.Server
/-! Helper lemmas for C18 / C19 (test server model). -/
namespace Ynca.Srv
end Ynca.Srv
