import YncaVerif.Model.Server
/-! Helper lemmas for C18 / C19 (test server model). -/
namespace Ynca.Srv

/-! ### association lists -/

theorem find_upd_same {β} (l : List (String × β)) (k : String) (g : β → β) :
    (l.map (fun e => if e.1 == k then (k, g e.2) else e)).find? (·.1 == k) =
      (l.find? (·.1 == k)).map (fun e => (k, g e.2)) := by
  induction l with
  | nil => simp
  | cons e t ih =>
    simp only [List.map_cons, List.find?_cons]
    cases he : (e.1 == k)
    · simp only [Bool.false_eq_true, if_false, he]; exact ih
    · simp

theorem find_upd_other {β} (l : List (String × β)) (k k' : String) (g : β → β) (hne : k' ≠ k) :
    (l.map (fun e => if e.1 == k then (k, g e.2) else e)).find? (·.1 == k') = l.find? (·.1 == k') := by
  have h2 : (k == k') = false := by simpa using (Ne.symm hne)
  induction l with
  | nil => simp
  | cons e t ih =>
    simp only [List.map_cons, List.find?_cons]
    cases he : (e.1 == k)
    · simp only [Bool.false_eq_true, if_false]; rw [ih]
    · have : e.1 = k := by simpa using he
      simp only [if_true, h2, this]; exact ih

theorem any_eq_find_isSome {β} (l : List (String × β)) (k : String) :
    l.any (·.1 == k) = (l.find? (·.1 == k)).isSome := by
  induction l with
  | nil => simp
  | cons e t ih =>
    simp only [List.any_cons, List.find?_cons]
    cases h : (e.1 == k) <;> simp [ih]

theorem find_setKey_same (sub : Sub) (f v : String) :
    (setKey sub f v).find? (·.1 == f) = some (f, v) := by
  unfold setKey
  split
  · rename_i h
    rw [any_eq_find_isSome] at h
    have := find_upd_same sub f (fun _ => v)
    simp only at this
    rw [this]
    cases hh : sub.find? (·.1 == f) <;> simp_all
  · rename_i h
    rw [any_eq_find_isSome] at h
    rw [List.find?_append]
    cases hh : sub.find? (·.1 == f) <;> simp_all

theorem find_setKey_other (sub : Sub) (f v f' : String) (hne : f' ≠ f) :
    (setKey sub f v).find? (·.1 == f') = sub.find? (·.1 == f') := by
  unfold setKey
  split
  · exact find_upd_other sub f f' (fun _ => v) hne
  · rw [List.find?_append]
    have h2 : (f == f') = false := by simpa using (Ne.symm hne)
    simp [h2]

theorem subOf_addData_same (st : Store) (s f v : String) :
    subOf (addData st s f v) s = some (setKey ((subOf st s).getD []) f v) := by
  unfold addData subOf
  split
  · rename_i h
    rw [any_eq_find_isSome] at h
    rw [find_upd_same st s (fun sub => setKey sub f v)]
    cases hh : st.find? (·.1 == s) <;> simp_all
  · rename_i h
    rw [any_eq_find_isSome] at h
    rw [List.find?_append]
    cases hh : st.find? (·.1 == s) <;> simp_all [setKey]

theorem subOf_addData_other (st : Store) (s f v s' : String) (hne : s' ≠ s) :
    subOf (addData st s f v) s' = subOf st s' := by
  unfold addData subOf
  split
  · rw [find_upd_other st s s' (fun sub => setKey sub f v) hne]
  · rw [List.find?_append]
    have h2 : (s == s') = false := by simpa using (Ne.symm hne)
    simp [h2]

theorem getData_addData_same (st : Store) (s f v : String) : getData (addData st s f v) s f = v := by
  simp only [getData, subOf_addData_same, find_setKey_same]

theorem getData_addData_other (st : Store) (s f v s' f' : String) (hne : (s', f') ≠ (s, f)) :
    getData (addData st s f v) s' f' = getData st s' f' := by
  by_cases hs : s' = s
  · subst hs
    have hf : f' ≠ f := by intro h; exact hne (by rw [h])
    simp only [getData, subOf_addData_same, find_setKey_other _ _ _ _ hf]
    cases subOf st s' <;> simp
  · simp only [getData, subOf_addData_other _ _ _ _ _ hs]

theorem hasKey_eq (st : Store) (s f : String) :
    hasKey st s f = ((subOf st s).bind (fun sub => sub.find? (·.1 == f))).isSome := by
  unfold hasKey
  cases subOf st s <;> simp [any_eq_find_isSome]

theorem hasKey_iff (st : Store) (s f : String) :
    hasKey st s f = true ↔ ∃ sub e, subOf st s = some sub ∧ sub.find? (·.1 == f) = some e := by
  rw [hasKey_eq]
  cases h : subOf st s with
  | none => simp
  | some sub =>
    cases h2 : sub.find? (·.1 == f) with
    | none => simp [h2]
    | some e => simp only [Option.bind_some, h2, Option.isSome_some, true_iff]; exact ⟨sub, e, rfl, h2⟩

theorem hasKey_addData (st : Store) (s f v s' f' : String) :
    hasKey (addData st s f v) s' f' = (hasKey st s' f' || (s' == s && f' == f)) := by
  by_cases hs : s' = s
  · subst hs
    by_cases hf : f' = f
    · subst hf
      simp [hasKey_eq, subOf_addData_same, find_setKey_same]
    · have : (f' == f) = false := by simpa using hf
      simp only [hasKey_eq, subOf_addData_same, Option.bind_some, find_setKey_other _ _ _ _ hf, this,
        Bool.and_false, Bool.or_false]
      cases subOf st s' <;> simp
  · have : (s' == s) = false := by simpa using hs
    simp [hasKey_eq, subOf_addData_other _ _ _ _ _ hs, this]

theorem hasKey_putData (st : Store) (s f v s' f' : String) :
    hasKey (putData st s f v).1 s' f' = hasKey st s' f' := by
  unfold putData
  split
  · rfl
  · rename_i sub hsub
    split
    · rfl
    · rename_i e he
      simp only
      split
      · rw [hasKey_addData]
        by_cases h : s' = s ∧ f' = f
        · obtain ⟨rfl, rfl⟩ := h
          have : hasKey st s' f' = true := (hasKey_iff _ _ _).2 ⟨sub, e, hsub, he⟩
          simp [this]
        · have : (s' == s && f' == f) = false := by
            simp only [Bool.and_eq_false_iff, beq_eq_false_iff_ne]
            by_cases hs : s' = s
            · right; intro hf; exact h ⟨hs, hf⟩
            · left; exact hs
          simp [this]
      · rfl

/-! ### ingestion -/


/-- a value line: `@S:F=V` with `V ≠ "?"`, handled as data by `fill_from_file` -/
def IsValueLine (cmd : Option Cmd) (raw : String) (c : Cmd) : Prop :=
  lineToCommand (cleanLine raw) = some c ∧ c.value ≠ "?" ∧
  (cmd = none ∨ (hasMarker (cleanLine raw) RESTRICTED = false ∧ hasMarker (cleanLine raw) UNDEFINED = false))

theorem ingestLine_value (st : Store) (cmd : Option Cmd) (raw : String) (c : Cmd) (h : IsValueLine cmd raw c) :
    (ingestLine (st, cmd) raw).1 = addData st c.subunit c.function c.value := by
  obtain ⟨h1, h2, h3⟩ := h
  have h2' : (c.value != "?") = true := by simpa using h2
  unfold ingestLine
  cases cmd with
  | none => simp only [h1, h2', if_true]
  | some c0 =>
    rcases h3 with h3 | ⟨h3, h4⟩
    · cases h3
    · simp only [h1, h2', h3, h4, Bool.or_false, Bool.false_eq_true, if_false, if_true]

theorem ingest_value (st : Store) (cmd : Option Cmd) (raw : String) (c : Cmd) (h : IsValueLine cmd raw c) :
    getData (ingestLine (st, cmd) raw).1 c.subunit c.function = c.value ∧
    ∀ s f, (s, f) ≠ (c.subunit, c.function) → getData (ingestLine (st, cmd) raw).1 s f = getData st s f := by
  rw [ingestLine_value st cmd raw c h]
  exact ⟨getData_addData_same _ _ _ _, fun s f hne => getData_addData_other _ _ _ _ _ _ hne⟩

theorem isError_false {v : String} (h : isError v = false) : v ≠ UNDEFINED ∧ v ≠ RESTRICTED := by
  simpa [isError] using h

theorem ingest_keeps (st : Store) (cmd : Option Cmd) (raw : String) (s f : String)
    (hv : isError (getData st s f) = false)
    (hn : ∀ c, lineToCommand (cleanLine raw) = some c → (c.subunit, c.function) ≠ (s, f)) :
    getData (ingestLine (st, cmd) raw).1 s f = getData st s f := by
  unfold ingestLine
  simp only
  generalize lineToCommand (cleanLine raw) = o at hn
  have key : getData (match o with
        | some c' => ((if c'.value != "?" then addData st c'.subunit c'.function c'.value else st, some c') : Store × Option Cmd)
        | none => (st, none)).1 s f = getData st s f := by
    cases o with
    | none => rfl
    | some c' =>
      simp only
      split
      · exact getData_addData_other _ _ _ _ _ _ (Ne.symm (hn c' rfl))
      · rfl
  cases cmd with
  | none => exact key
  | some c0 =>
    simp only
    split
    · split
      · rename_i hu
        have hu' : getData st c0.subunit c0.function = UNDEFINED := by simpa using hu
        apply getData_addData_other
        intro heq
        cases heq
        rw [hu'] at hv
        exact absurd hv (by decide)
      · rfl
    · exact key

/-! ### GET -/


/-- functions with special coupling in the handlers (by name), from the statement plus the handlers' tables -/
def specialName (T : Tables) (f : String) : Bool :=
  ["PWR", "PWRB", "STRAIGHT", "SOUNDPRG", "PUREDIRMODE", "DIRMODE", "PLAYBACK", "MEM", "REMOTECODE", "INPNAME", "SCENENAME"].contains f ||
  T.multi.any (·.1 == f) || T.related.any (·.1 == f)

/-- an ordinary PUT: no special function, not a relative step on a volume function, not an error-marker text -/
def OrdinaryPut (T : Tables) (f v : String) : Prop :=
  specialName T f = false ∧ ((f = "VOL" ∨ f = "ZONEBVOL") → relStep v = none) ∧ isError v = false

/-- `@S:F=V`, or one of the two error markers -/
def WellFormed (l : String) : Prop := isError l = true ∨ ∃ s f v, l = valueLine s f v

theorem specialName_false {T : Tables} {f : String} (h : specialName T f = false) :
    (f == "PWR") = false ∧ (f == "STRAIGHT") = false ∧ (f == "DIRMODE") = false ∧ (f == "PLAYBACK") = false ∧
    (f == "MEM") = false ∧ (f == "REMOTECODE") = false ∧ (f == "INPNAME") = false ∧ (f == "SCENENAME") = false ∧
    T.multi.find? (·.1 == f) = none ∧ T.related.find? (·.1 == f) = none := by
  simp only [specialName, Bool.or_eq_false_iff, any_eq_find_isSome] at h
  obtain ⟨⟨h1, h2⟩, h3⟩ := h
  simp at h1
  rw [Option.isSome_eq_false_iff, Option.isNone_iff_eq_none] at h2 h3
  simp [h1, h2, h3]

theorem sendStored_fst (st : Store) (s f : String) (sk : Bool) :
    (sendStored st s f sk).1 = if isError (getData st s f) then (if sk then [] else [getData st s f])
      else [valueLine s f (getData st s f)] := by
  unfold sendStored; simp only; split <;> rfl

theorem get_ordinary (T : Tables) (st : Store) (s f : String) (hf : specialName T f = false) :
    handleGet T.multi st s f =
      (if isError (getData st s f) then [getData st s f] else [valueLine s f (getData st s f)]) := by
  obtain ⟨_, h2, h3, _, _, _, h7, h8, h9, _⟩ := specialName_false hf
  simp [handleGet, multiTable, h9, handleGet1, h2, h3, h7, h8, sendStored_fst]

/-- what a GET may answer for subunit `s` -/
def GetLine (st : Store) (s : String) (l : String) : Prop :=
  isError l = true ∨ (∃ g, l = valueLine s g (getData st s g) ∧ isError (getData st s g) = false) ∨
    l = valueLine s "STRAIGHT" "On"

theorem sendStored_getLine (st : Store) (s f : String) (sk : Bool) :
    ∀ l ∈ (sendStored st s f sk).1, GetLine st s l := by
  intro l hl
  rw [sendStored_fst] at hl
  split at hl
  · rename_i he
    split at hl
    · simp at hl
    · simp at hl; subst hl; exact Or.inl he
  · rename_i he
    simp at hl
    subst hl
    exact Or.inr (Or.inl ⟨f, rfl, by simpa using he⟩)

theorem handleGet1_getLine (st : Store) (s : String) (sup : Bool) (fuel : Nat) :
    ∀ f, ∀ l ∈ handleGet1 st s f sup fuel, GetLine st s l := by
  induction fuel with
  | zero => intro f l hl; simp [handleGet1] at hl
  | succ n ih =>
    intro f l hl
    rw [handleGet1] at hl
    split at hl
    · simp only at hl
      split at hl
      · simp at hl; subst hl; exact Or.inl (by decide)
      · simp only [List.mem_flatMap] at hl
        obtain ⟨e, _, hl⟩ := hl
        exact sendStored_getLine _ _ _ _ l hl
    · split at hl
      · simp only at hl
        split at hl
        · simp at hl; subst hl; exact Or.inl (by decide)
        · simp only [List.mem_flatMap] at hl
          obtain ⟨e, _, hl⟩ := hl
          exact sendStored_getLine _ _ _ _ l hl
      · split at hl
        · simp only at hl
          split at hl
          · rw [List.mem_append] at hl
            rcases hl with hl | hl
            · exact sendStored_getLine _ _ _ _ l hl
            · exact ih _ l hl
          · exact sendStored_getLine _ _ _ _ l hl
        · split at hl
          · rename_i h
            simp only [Bool.and_eq_true, beq_iff_eq] at h
            simp at hl
            rw [h.1] at hl
            exact Or.inr (Or.inr hl)
          · exact sendStored_getLine _ _ _ _ l hl

theorem handleGet_getLine (tables : List (String × List String)) (st : Store) (s f : String) :
    ∀ l ∈ handleGet tables st s f, GetLine st s l := by
  intro l hl
  unfold handleGet at hl
  split at hl
  · exact handleGet1_getLine _ _ _ _ _ l hl
  · simp only at hl
    split at hl
    · simp at hl; subst hl; exact Or.inl (by decide)
    · simp only [List.mem_flatMap] at hl
      obtain ⟨g, _, hl⟩ := hl
      exact handleGet1_getLine _ _ _ _ _ l hl

theorem GetLine.wellFormed {st : Store} {s l : String} (h : GetLine st s l) : WellFormed l := by
  rcases h with h | ⟨g, h, _⟩ | h
  · exact Or.inl h
  · exact Or.inr ⟨_, _, _, h⟩
  · exact Or.inr ⟨_, _, _, h⟩

theorem get_only_stored (T : Tables) (st : Store) (s f : String) :
    ∀ l ∈ handleGet T.multi st s f, isError l = true ∨
      (∃ g, l = valueLine s g (getData st s g) ∧ isError (getData st s g) = false) ∨
      l = valueLine s "STRAIGHT" "On" :=
  handleGet_getLine T.multi st s f

theorem get_wellformed (T : Tables) (st : Store) (s f : String) :
    ∀ l ∈ handleGet T.multi st s f, WellFormed l :=
  fun l hl => (handleGet_getLine T.multi st s f l hl).wellFormed

theorem valueLine_ne_crash (s f v : String) : valueLine s f v ≠ crashMarker := by
  intro h
  have := congrArg String.toList h
  simp [valueLine, crashMarker, String.toList_append] at this

theorem WellFormed.ne_crash {l : String} (h : WellFormed l) : l ≠ crashMarker := by
  rcases h with h | ⟨s, f, v, rfl⟩
  · intro hc; subst hc; exact absurd h (by decide)
  · exact valueLine_ne_crash s f v

/-! ### ordinary PUT -/


theorem getData_of_find {st : Store} {s f : String} {sub : Sub} {e : String × String}
    (h1 : subOf st s = some sub) (h2 : sub.find? (·.1 == f) = some e) : getData st s f = e.2 := by
  simp [getData, h1, h2]

theorem putData_key (st : Store) (s f v : String) (hk : hasKey st s f = true) :
    putData st s f v =
      (if v != UNDEFINED && v != RESTRICTED then addData st s f v else st, "OK", getData st s f != v) := by
  obtain ⟨sub, e, h1, h2⟩ := (hasKey_iff _ _ _).1 hk
  simp only [putData, h1, h2, getData_of_find h1 h2]

theorem putData_nokey (st : Store) (s f v : String) (hk : hasKey st s f = false) :
    ∃ r, isError r = true ∧ putData st s f v = (st, r, false) := by
  unfold putData
  cases h1 : subOf st s with
  | none => exact ⟨RESTRICTED, by decide, rfl⟩
  | some sub =>
    cases h2 : sub.find? (·.1 == f) with
    | none => exact ⟨UNDEFINED, by decide, by simp only [h2]⟩
    | some e =>
      have := (hasKey_iff st s f).2 ⟨sub, e, h1, h2⟩
      rw [hk] at this; cases this

theorem handlePut_ordinary (T : Tables) (va : VolArith) (st : Store) (s f v : String) (ho : OrdinaryPut T f v) :
    handlePut T va st s f v =
      ((putData st s f v).1,
        if isError (putData st s f v).2.1 then [(putData st s f v).2.1]
        else if !(putData st s f v).2.2 then [] else [valueLine s f v]) := by
  obtain ⟨hf, hvol, hv⟩ := ho
  obtain ⟨h1, h2, h3, h4, h5, h6, h7, h8, h9, h10⟩ := specialName_false hf
  by_cases hvf : (f == "VOL" || f == "ZONEBVOL") = true
  · have hrel := hvol (by simpa using hvf)
    simp only [handlePut, h6, h5, Bool.and_false, Bool.false_eq_true, if_false, hvf, hrel,
      if_true, h4, Bool.false_and, h10, Option.map_none, h1]
    rcases putData st s f v with ⟨st1, res, ch⟩
    simp only
    split
    · rfl
    · split <;> rfl
  · simp only [handlePut, h6, h5, Bool.and_false, Bool.false_eq_true, if_false, hvf,
      h4, Bool.false_and, h10, Option.map_none, h1]
    rcases putData st s f v with ⟨st1, res, ch⟩
    simp only
    split
    · rfl
    · split <;> rfl

theorem put_new (T : Tables) (va : VolArith) (st : Store) (s f v : String) (ho : OrdinaryPut T f v)
    (hk : hasKey st s f = true) (hne : getData st s f ≠ v) :
    (handlePut T va st s f v).2 = [valueLine s f v] ∧
    getData (handlePut T va st s f v).1 s f = v ∧
    ∀ s' f', (s', f') ≠ (s, f) → getData (handlePut T va st s f v).1 s' f' = getData st s' f' := by
  obtain ⟨hv1, hv2⟩ := isError_false ho.2.2
  have hv1' : (v != UNDEFINED) = true := by simpa using hv1
  have hv2' : (v != RESTRICTED) = true := by simpa using hv2
  have hne' : (getData st s f != v) = true := by simpa using hne
  have hok : isError "OK" = false := by decide
  have : handlePut T va st s f v = (addData st s f v, [valueLine s f v]) := by
    rw [handlePut_ordinary T va st s f v ho, putData_key st s f v hk]
    simp only [hv1', hv2', Bool.and_self, if_true, hok, hne', Bool.not_true, Bool.false_eq_true, if_false]
  rw [this]
  exact ⟨rfl, getData_addData_same _ _ _ _, fun s' f' h => getData_addData_other _ _ _ _ _ _ h⟩

theorem put_same (T : Tables) (va : VolArith) (st : Store) (s f v : String) (ho : OrdinaryPut T f v)
    (hk : hasKey st s f = true) (heq : getData st s f = v) :
    (handlePut T va st s f v).2 = [] ∧ ∀ s' f', getData (handlePut T va st s f v).1 s' f' = getData st s' f' := by
  obtain ⟨hv1, hv2⟩ := isError_false ho.2.2
  have hv1' : (v != UNDEFINED) = true := by simpa using hv1
  have hv2' : (v != RESTRICTED) = true := by simpa using hv2
  have hne' : (getData st s f != v) = false := by simpa using heq
  have hok : isError "OK" = false := by decide
  have : handlePut T va st s f v = (addData st s f v, []) := by
    rw [handlePut_ordinary T va st s f v ho, putData_key st s f v hk]
    simp only [hv1', hv2', Bool.and_self, if_true, hok, hne', Bool.not_false, Bool.false_eq_true, if_false]
  rw [this]
  refine ⟨rfl, fun s' f' => ?_⟩
  by_cases h : (s', f') = (s, f)
  · cases h; simp only [getData_addData_same, heq]
  · exact getData_addData_other _ _ _ _ _ _ h

theorem put_unknown (T : Tables) (va : VolArith) (st : Store) (s f v : String) (ho : OrdinaryPut T f v)
    (hk : hasKey st s f = false) :
    (∃ e, (handlePut T va st s f v).2 = [e] ∧ isError e = true) ∧ (handlePut T va st s f v).1 = st := by
  obtain ⟨r, hr, hp⟩ := putData_nokey st s f v hk
  rw [handlePut_ordinary T va st s f v ho, hp]
  rw [if_pos hr]
  exact ⟨⟨r, rfl, hr⟩, rfl⟩

/-! ### PUT in general -/


theorem put_ignores_arith (T : Tables) (va va' : VolArith) (st : Store) (s f v : String)
    (hf : f ≠ "VOL" ∧ f ≠ "ZONEBVOL") : handlePut T va st s f v = handlePut T va' st s f v := by
  have h1 : (f == "VOL") = false := by simpa using hf.1
  have h2 : (f == "ZONEBVOL") = false := by simpa using hf.2
  simp only [handlePut, h1, h2, Bool.or_false, Bool.false_eq_true, if_false]

theorem put_ignores_arith_value (T : Tables) (va va' : VolArith) (st : Store) (s f v : String)
    (hv : v.startsWith "Up" = false ∧ v.startsWith "Down" = false) :
    handlePut T va st s f v = handlePut T va' st s f v := by
  have hrel : relStep v = none := by
    simp only [relStep, hv.1, hv.2, Bool.or_false, Bool.false_eq_true, if_false]
  simp only [handlePut, hrel]

/-- the PWR-coupling fold keeps the key set and emits only value lines -/
theorem pwrFold (f v : String) (zs : List String) :
    ∀ acc : Store × List String,
      (∀ s' f', hasKey (zs.foldl (fun (acc : Store × List String) z =>
        let (st', _, ch) := putData acc.1 z f v
        (st', if ch then acc.2 ++ [valueLine z f v] else acc.2)) acc).1 s' f' = hasKey acc.1 s' f') ∧
      (∀ l ∈ (zs.foldl (fun (acc : Store × List String) z =>
        let (st', _, ch) := putData acc.1 z f v
        (st', if ch then acc.2 ++ [valueLine z f v] else acc.2)) acc).2, l ∈ acc.2 ∨ WellFormed l) := by
  induction zs with
  | nil => intro acc; exact ⟨fun _ _ => rfl, fun l hl => Or.inl hl⟩
  | cons z t ih =>
    intro acc
    simp only [List.foldl_cons]
    obtain ⟨ih1, ih2⟩ := ih ((putData acc.1 z f v).1,
      if (putData acc.1 z f v).2.2 then acc.2 ++ [valueLine z f v] else acc.2)
    refine ⟨fun s' f' => ?_, fun l hl => ?_⟩
    · rw [ih1, hasKey_putData]
    · rcases ih2 l hl with h | h
      · simp only at h
        split at h
        · rw [List.mem_append] at h
          rcases h with h | h
          · exact Or.inl h
          · simp at h; subst h; exact Or.inr (Or.inr ⟨_, _, _, rfl⟩)
        · exact Or.inl h
      · exact Or.inr h

theorem pwrCoupling_spec (T : Tables) (st : Store) (s f v : String) :
    (∀ s' f', hasKey (pwrCoupling T st s f v).1 s' f' = hasKey st s' f') ∧
    (∀ l ∈ (pwrCoupling T st s f v).2, WellFormed l) := by
  unfold pwrCoupling
  split
  · obtain ⟨h1, h2⟩ := pwrFold f v T.zones (st, [])
    simp only
    split
    · refine ⟨fun s' f' => ?_, fun l hl => ?_⟩
      · simp only [hasKey_putData]; exact h1 s' f'
      · simp only at hl
        split at hl
        · rw [List.mem_append] at hl
          rcases hl with hl | hl
          · rcases h2 l hl with h | h
            · simp at h
            · exact h
          · simp at hl; subst hl; exact Or.inr ⟨_, _, _, rfl⟩
        · rcases h2 l hl with h | h
          · simp at h
          · exact h
    · refine ⟨h1, fun l hl => ?_⟩
      rcases h2 l hl with h | h
      · simp at h
      · exact h
  · split
    · refine ⟨fun s' f' => ?_, fun l hl => ?_⟩
      · simp only [hasKey_putData]
      · simp only at hl
        have aux : ∀ (c : Bool) (w : String), l ∈ (if c then [valueLine "SYS" f w] else []) → WellFormed l := by
          intro c w h
          cases c
          · simp at h
          · simp at h; exact Or.inr ⟨_, _, _, h⟩
        exact aux _ _ hl
    · exact ⟨fun _ _ => rfl, fun l hl => by simp at hl⟩



theorem handlePut_spec (T : Tables) (va : VolArith) (st : Store) (s f v0 : String) :
    (∀ s' f', hasKey (handlePut T va st s f v0).1 s' f' = hasKey st s' f') ∧
    ∀ l ∈ (handlePut T va st s f v0).2, WellFormed l ∨
      (l = crashMarker ∧ T.zones.contains s = true ∧ hasKey st s "PLAYBACK" = true) := by
  have hU : WellFormed UNDEFINED := Or.inl (by decide)
  unfold handlePut
  split
  · refine ⟨fun _ _ => rfl, fun l hl => ?_⟩
    simp only at hl
    split at hl
    · simp at hl; subst hl; exact Or.inl hU
    · simp at hl
  · split
    · exact ⟨fun _ _ => rfl, fun l hl => by simp at hl⟩
    · simp only []
      generalize (if (f == "VOL" || f == "ZONEBVOL") = true then _ else v0) = v
      have hkeys : ∀ s' f', hasKey (putData st s f v).1 s' f' = hasKey st s' f' :=
        fun s' f' => hasKey_putData st s f v s' f'
      have hres : isError (putData st s f v).2.1 = false → hasKey st s f = true := by
        intro h
        cases hk : hasKey st s f with
        | true => rfl
        | false =>
          obtain ⟨r, hr, hp⟩ := putData_nokey st s f v hk
          rw [hp] at h; simp only at h; rw [hr] at h; cases h
      generalize putData st s f v = p at hkeys hres
      obtain ⟨st1, res, ch⟩ := p
      simp only at hkeys hres ⊢
      split
      · rename_i he
        refine ⟨hkeys, fun l hl => ?_⟩
        simp at hl; subst hl; exact Or.inl (Or.inl he)
      · rename_i he
        have hk := hres (by simpa using he)
        split
        · exact ⟨hkeys, fun l hl => by simp at hl⟩
        · split
          · exact ⟨hkeys, fun l hl => by simp at hl⟩
          · rename_i hpb
            split
            · rename_i htgt
              refine ⟨hkeys, fun l hl => ?_⟩
              simp at hl; subst hl
              right
              split at htgt
              · rename_i hc
                simp only [Bool.and_eq_true, beq_iff_eq] at hc
                refine ⟨rfl, hc.2, ?_⟩
                rw [← hc.1]; exact hk
              · cases htgt
            · rename_i s' htgt
              generalize (if (f == "PLAYBACK") = true then "PLAYBACKINFO" else f) = f'
              have hrep : ∀ l ∈ (match
                    Option.map (fun x => x.snd)
                      (List.find? (fun x => x.fst == f') T.related) with
                  | some fs =>
                    List.map (fun g => valueLine s' g (getData st1 s' g))
                      (List.filter (fun g => getData st1 s' g != UNDEFINED) fs)
                  | none => [valueLine s' f' v]),
                  WellFormed l := by
                intro l hl
                split at hl
                · simp only [List.mem_map] at hl
                  obtain ⟨g, _, rfl⟩ := hl
                  exact Or.inr ⟨_, _, _, rfl⟩
                · simp at hl; subst hl; exact Or.inr ⟨_, _, _, rfl⟩
              obtain ⟨hp1, hp2⟩ := pwrCoupling_spec T st1 s' f' v
              split
              · refine ⟨fun a b => by rw [hp1, hkeys], fun l hl => ?_⟩
                simp only [List.mem_append] at hl
                rcases hl with hl | hl
                · exact Or.inl (hrep l hl)
                · exact Or.inl (hp2 l hl)
              · exact ⟨hkeys, fun l hl => Or.inl (hrep l hl)⟩

/-! ### C18 / C19 results -/


theorem put_wellformed (T : Tables) (va : VolArith) (st : Store) (s f v : String) :
    ∀ l ∈ (handlePut T va st s f v).2, WellFormed l ∨ l = crashMarker := by
  intro l hl
  rcases (handlePut_spec T va st s f v).2 l hl with h | h
  · exact Or.inl h
  · exact Or.inr h.1

/-- no zone of the store has a `PLAYBACK` key -/
def NoZonePlayback (T : Tables) (st : Store) : Prop := ∀ z ∈ T.zones, hasKey st z "PLAYBACK" = false

theorem no_crash (T : Tables) (va : VolArith) (st : Store) (h : NoZonePlayback T st) (line : String) :
    crashMarker ∉ (handleCommand T va st line).2 := by
  intro hm
  unfold handleCommand at hm
  split at hm
  · rename_i c _
    split at hm
    · exact (get_wellformed T st c.subunit c.function _ hm).ne_crash rfl
    · rcases (handlePut_spec T va st c.subunit c.function c.value).2 _ hm with hw | ⟨_, hz, hk⟩
      · exact hw.ne_crash rfl
      · have hz' : c.subunit ∈ T.zones := by simpa using hz
        rw [h _ hz'] at hk; cases hk
  · simp at hm

theorem keys_invariant (T : Tables) (va : VolArith) (st : Store) (line : String) (s f : String) :
    hasKey (handleCommand T va st line).1 s f = hasKey st s f := by
  unfold handleCommand
  split
  · split
    · rfl
    · exact (handlePut_spec T va st _ _ _).1 s f
  · rfl

theorem NoZonePlayback.step {T : Tables} {st : Store} (h : NoZonePlayback T st) (va : VolArith) (line : String) :
    NoZonePlayback T (handleCommand T va st line).1 := by
  intro z hz
  rw [keys_invariant]; exact h z hz

theorem session_no_crash (T : Tables) (va : VolArith) (st : Store) (h : NoZonePlayback T st) (lines : List String) :
    NoZonePlayback T (lines.foldl (fun st l => (handleCommand T va st l).1) st) ∧
    ∀ pre l post, lines = pre ++ l :: post →
      crashMarker ∉ (handleCommand T va (pre.foldl (fun st l => (handleCommand T va st l).1) st) l).2 := by
  have inv : ∀ (ls : List String) (st : Store), NoZonePlayback T st →
      NoZonePlayback T (ls.foldl (fun st l => (handleCommand T va st l).1) st) := by
    intro ls
    induction ls with
    | nil => intro st h; exact h
    | cons a t ih => intro st h; exact ih _ (h.step va a)
  exact ⟨inv lines st h, fun pre l _ _ => no_crash T va _ (inv pre st h) l⟩

end Ynca.Srv
