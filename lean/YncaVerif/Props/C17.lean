import YncaVerif.Props.C13
import YncaVerif.Props.C16
/-! # C17 — connection_check() reports model and exactly the zones present, then cleans up

The full statement is NOT a theorem of the model, and is false of the code: `C17_negation_witness` below is a
concrete execution of the L4 model (validated against the implementation by trace inclusion) in which both
start-up probes are answered with a latency above the command spacing; the reply to the second probe then
arrives after the first reply has cleared the keep-alive flag, is delivered to the message callbacks as a
`SYS:MODELNAME` message, and `connection_check` — whose wait ends at the first such message — returns before
any AVAIL reply.  The same witness is replayed on the implementation by the check (known finding
`C17-early-probe-reply`).  What is proved is the partial statement: whenever the flag discipline withholds the
replies to both start-up probes (`C17_partial_fast_replies` shows this for latencies below the spacing, the
general rule is C13's), and the clean-up part, which reuses C16. -/
namespace Ynca.C17
open Ynca.L4

def P0 : Params := ⟨100000, 30000000, 2000000, 1000000, 0⟩
def reply : List UInt8 := "@SYS:MODELNAME=RX\r\n".toUTF8.toList

/-- start-up of a connection with one message callback registered: two probes, at 0 and 100 ms -/
def startup : List Label :=
  [.startR, .r, .r, .r, .r, .r, .r, .publish, .reg 10 1,
   .s, .s, .s, .s, .s, .s,
   .tick 100000, .s, .s, .s, .s, .s, .s, .s]

/-- one complete line arrives and is taken through `handle_line` up to the point of delivery -/
def receive : List Label := [.dev reply, .rGet false, .r, .r, .rGet false, .r, .r, .r, .r]

/-- replies 150 ms after each probe (as measured on a real RX-V473) -/
def slowReplies : List Label :=
  startup ++ [.tick 50000] ++ receive ++ [.r, .r, .tick 50000, .s, .tick 50000] ++ receive ++ [.rCb 1]

/-- **negation of the full statement, by witness**: with both probes answered 150 ms late, the reply to the
    first probe is withheld but the reply to the second one is delivered to the message callback (the reader is
    inside callback 1 with that line) — before any reply to a later command can have arrived -/
theorem C17_negation_witness :
    (run P0 {} slowReplies).map (fun s => (s.decisions.map (·.2.1), s.rpc, s.wire.map (·.1))) =
      some ([true, false], .inCb "@SYS:MODELNAME=RX" 1 [], [0, 100000]) := by
  decide +kernel

/-- replies 50 ms after each probe (below the command spacing) -/
def fastReplies : List Label :=
  [.startR, .r, .r, .r, .r, .r, .r, .publish, .reg 10 1,
   .s, .s, .s, .s, .s, .s, .tick 50000] ++ receive ++
  [.r, .r, .tick 50000, .s, .s, .s, .s, .s, .s, .s, .tick 50000] ++ receive

/-- **partial**: when each probe's reply arrives before the next line is written, both replies are withheld -/
theorem C17_partial_fast_replies :
    (run P0 {} fastReplies).map (fun s => (s.decisions.map (·.2.1), s.wire.map (·.1))) =
      some ([true, true], [0, 100000]) := by
  decide +kernel

/-- the general rule behind both: a MODELNAME line is withheld exactly when a probe was flagged since the flag was
    last cleared (C13) -/
theorem C17_withheld_rule (P : Params) (s : St) (h : Reachable P s) :
    ∀ d ∈ s.decisions, C13.isModelname d.1 = true → (d.2.1 = true ↔ d.2.2 = true) := by
  intro d hd hm
  constructor
  · intro hw; exact (C13.C13_only_if P s h d hd hw).2
  · intro hp; exact C13.C13_converse P s h d hd hm hp

/-- **clean-up in every outcome**: the `finally` block calls close(); once it has returned the transport is closed
    and the reader told to stop (C16), and it never raises -/
theorem C17_cleanup (P : Params) (s : St) (h : Reachable P s) (hr : s.closeReturned = true) :
    s.portOpen = false ∧ s.alive = false :=
  C16.C16_after_return P s h hr

end Ynca.C17
