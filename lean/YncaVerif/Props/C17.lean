import YncaVerif.Model.Conn
/-! # C17 — (dialogue-level statements; under construction) -/
namespace Ynca.C17
open Ynca.L4
theorem C17_model_initial_state : run ⟨100000, 30000000, 2000000, 1000000, 0⟩ {} [] = some {} := rfl
end Ynca.C17
