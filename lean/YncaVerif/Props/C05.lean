import YncaVerif.Lemmas.Subunit
import YncaVerif.Lemmas.Enum
import YncaVerif.Gen.Enums
import YncaVerif.Gen.Functions
/-! # C05 — a write sends exactly one canonical PUT and never touches the cache

`assignOutcome` is the descriptor `__set__` (PUT gate, `converter.to_str`, `_put`), `actionOutcome`
the action methods; `assign`/`act` thread them through the object state (`sent`, `cache`, callbacks).
Canonical texts on the right-hand sides are stated independently of `encode`: the member's wire text
from the table, the text itself, the decimal rendering, C11's grid text. -/
namespace Ynca.C05

/-! ### one canonical PUT for valid values -/

/-- enumerated function, a member of its enumeration: the member's wire text -/
theorem C05_put_enum (tbls : List EnumTbl) (c : Cls) (hc : clsOk c = true) (f : Fn) (hf : f ∈ c.fns)
    (hput : f.put = true) (e : String) (hconv : f.conv = .enum e) (t : EnumTbl)
    (ht : findEnum tbls e = some t) (hok : enumOk t = true) (m txt : String) (hm : (m, txt) ∈ t.members) :
    assignOutcome tbls c f.attr (.member e m) = .put f.name txt := by
  have h1 := (C04_roundtrip_text t hok m txt hm)
  simp [assignOutcome, findAttr_of_clsOk c hc f hf, hput, hconv, encode, ht, h1]

/-- text function: the text itself when within the device limits; an error beyond the maximum -/
theorem C05_put_str (tbls : List EnumTbl) (c : Cls) (hc : clsOk c = true) (f : Fn) (hf : f ∈ c.fns)
    (hput : f.put = true) (mx : Nat) (hconv : f.conv = .str (some 0) (some mx)) (s : String) :
    assignOutcome tbls c f.attr (.str s) = if s.length ≤ mx ∨ mx = 0 then .put f.name s else .raises := by
  simp only [assignOutcome, findAttr_of_clsOk c hc f hf, hput, hconv, encode]
  by_cases h : s.length ≤ mx
  · have : ¬ (mx < s.length) := by omega
    simp [h, this]
  · have h' : mx < s.length := by omega
    by_cases h0 : mx = 0 <;> simp [h, h', h0]

/-- unrestricted text function -/
theorem C05_put_str_unlimited (tbls : List EnumTbl) (c : Cls) (hc : clsOk c = true) (f : Fn) (hf : f ∈ c.fns)
    (hput : f.put = true) (hconv : f.conv = .str none none) (s : String) :
    assignOutcome tbls c f.attr (.str s) = .put f.name s := by
  simp [assignOutcome, findAttr_of_clsOk c hc f hf, hput, hconv, encode]

/-- plain integer function, an `int`: its decimal rendering -/
theorem C05_put_int (tbls : List EnumTbl) (c : Cls) (hc : clsOk c = true) (f : Fn) (hf : f ∈ c.fns)
    (hput : f.put = true) (hconv : f.conv = .int .plain ∨ f.conv = .intOrNone .plain) (n : Int) :
    assignOutcome tbls c f.attr (.int n) = .put f.name (toString n) := by
  rcases hconv with hconv | hconv <;>
    simp [assignOutcome, findAttr_of_clsOk c hc f hf, hput, hconv, encode, numGuard, applyToStr, intText]

/-- stepped float function, any finite `float` or `int`: C11's grid text -/
theorem C05_put_stepped (tbls : List EnumTbl) (c : Cls) (hc : clsOk c = true) (f : Fn) (hf : f ∈ c.fns)
    (hput : f.put = true) (d sn sd : Nat) (hsn : sn ≠ 0) (hsd : sd ≠ 0)
    (hconv : f.conv = .float (.stepped d sn sd)) (vn : Int) (vd : Nat) (hvd : vd ≠ 0) :
    assignOutcome tbls c f.attr (.float vn vd) = .put f.name (String.ofList (numberToString vn vd d sn sd)) ∧
    assignOutcome tbls c f.attr (.int vn) = .put f.name (String.ofList (numberToString vn 1 d sn sd)) := by
  constructor <;>
    simp [assignOutcome, findAttr_of_clsOk c hc f hf, hput, hconv, encode, numGuard, applyToStr, hsn, hsd, hvd]

/-! ### gates -/

/-- read-only attributes reject assignment of anything -/
theorem C05_readonly (tbls : List EnumTbl) (c : Cls) (hc : clsOk c = true) (f : Fn) (hf : f ∈ c.fns)
    (h : f.put = false) (v : PyVal) : assignOutcome tbls c f.attr v = .attributeError := by
  simp [assignOutcome, findAttr_of_clsOk c hc f hf, h]

/-- write-only attributes reject reading -/
theorem C05_writeonly (st : SubSt) (hc : clsOk st.cls = true) (f : Fn) (hf : f ∈ st.cls.fns)
    (h : f.get = false) : readAttr st f.attr = .attributeError := by
  simp [readAttr, findAttr_of_clsOk st.cls hc f hf, h]

/-! ### values outside the domain raise -/

/-- something that is certainly not a number -/
def NotANumber : PyVal → Prop
  | .none => True
  | .other => True
  | .str s => clearlyNotNumeric s = true
  | _ => False

/-- a converter that only accepts numbers -/
def numericOnly : Conv → Bool
  | .int _ => true
  | .intOrNone _ => true
  | .float _ => true
  | .multi cs => go cs
  | _ => false
where go : List Conv → Bool
  | [] => true
  | c :: cs => numericOnly c && go cs

theorem numGuard_notANumber (tbls : List EnumTbl) (v : PyVal) (hv : NotANumber v) :
    numGuard tbls v = .raises := by
  cases v <;> simp_all [NotANumber, numGuard]

mutual
theorem encode_numeric_rejects (tbls : List EnumTbl) : (cv : Conv) → numericOnly cv = true →
    ∀ v : PyVal, NotANumber v → encode tbls cv v = .raises
  | .int _, _, v, hv => by simp [encode, numGuard_notANumber tbls v hv]
  | .intOrNone _, _, v, hv => by simp [encode, numGuard_notANumber tbls v hv]
  | .float _, _, v, hv => by simp [encode, numGuard_notANumber tbls v hv]
  | .multi cs, h, v, hv => by
      simp only [encode]
      exact encodeMulti_numeric_rejects tbls cs (by simpa [numericOnly] using h) v hv
  | .enum _, h, _, _ => by simp [numericOnly] at h
  | .str _ _, h, _, _ => by simp [numericOnly] at h
  | .opaque _, h, _, _ => by simp [numericOnly] at h
theorem encodeMulti_numeric_rejects (tbls : List EnumTbl) : (cs : List Conv) → numericOnly.go cs = true →
    ∀ v : PyVal, NotANumber v → encode.encodeMulti tbls cs v = .raises
  | [], _, _, _ => by simp [encode.encodeMulti]
  | c :: cs, h, v, hv => by
      simp only [numericOnly.go, Bool.and_eq_true] at h
      simp only [encode.encodeMulti, encode_numeric_rejects tbls c h.1 v hv]
      exact encodeMulti_numeric_rejects tbls cs h.2 v hv
end

theorem C05_reject_non_number (tbls : List EnumTbl) (c : Cls) (hc : clsOk c = true) (f : Fn) (hf : f ∈ c.fns)
    (hput : f.put = true) (hnum : numericOnly f.conv = true) (v : PyVal) (hv : NotANumber v) :
    assignOutcome tbls c f.attr v = .raises := by
  simp [assignOutcome, findAttr_of_clsOk c hc f hf, hput, encode_numeric_rejects tbls f.conv hnum v hv]

/-- anything that is not an enumeration member, for an enumerated function -/
theorem C05_reject_non_enum (tbls : List EnumTbl) (c : Cls) (hc : clsOk c = true) (f : Fn) (hf : f ∈ c.fns)
    (hput : f.put = true) (e : String) (hconv : f.conv = .enum e) (v : PyVal)
    (hv : ∀ e' m, v ≠ .member e' m) : assignOutcome tbls c f.attr v = .raises := by
  simp only [assignOutcome, findAttr_of_clsOk c hc f hf, hput, hconv, encode]
  cases v <;> simp_all

/-- a remote code that is not exactly `len` characters -/
theorem C05_reject_remotecode (tbls : List EnumTbl) (fn : String) (len : Nat) (s : String) (h : s.length ≠ len) :
    actionOutcome tbls (.fixedLen fn len) [.str s] = .raises := by
  simp [actionOutcome, h]

theorem C05_remotecode_ok (tbls : List EnumTbl) (fn : String) (len : Nat) (s : String) (h : s.length = len) :
    actionOutcome tbls (.fixedLen fn len) [.str s] = .put fn s := by
  simp [actionOutcome, h]

/-! ### at most one PUT, nothing on rejection, the cache is never touched -/

theorem C05_assign_state (tbls : List EnumTbl) (st : SubSt) (attr : String) (v : PyVal) :
    let r := assign tbls st attr v
    r.1.cache = st.cache ∧ r.1.calls = st.calls ∧ r.1.cls = st.cls ∧
    (match r.2 with
     | .put fn t => r.1.sent = if st.closed then st.sent else st.sent ++ [.put st.cls.id fn t]
     | _ => r.1.sent = st.sent) := by
  simp only [assign, applyWrite]
  cases assignOutcome tbls st.cls attr v <;> simp <;> split <;> simp

theorem C05_act_state (tbls : List EnumTbl) (st : SubSt) (meth : String) (args : List PyVal) :
    let r := act tbls st meth args
    r.1.cache = st.cache ∧ r.1.calls = st.calls ∧ r.1.cls = st.cls ∧
    (match r.2 with
     | .put fn t => r.1.sent = if st.closed then st.sent else st.sent ++ [.put st.cls.id fn t]
     | _ => r.1.sent = st.sent) := by
  simp only [act]
  cases findAction st.cls meth with
  | none => simp
  | some a =>
    simp only [applyWrite]
    cases actionOutcome tbls a.kind args <;> simp <;> split <;> simp

/-! ### relative volume steps -/

def allowedSteps (dir : String) : List String := [dir, dir ++ " 1 dB", dir ++ " 2 dB", dir ++ " 5 dB"]

/-- a step given as any numeric type (int, float, bool): exactly one PUT whose text is `Up`/`Down` or
    `Up N dB`/`Down N dB` with N ∈ {1, 2, 5} -/
theorem C05_steps (tbls : List EnumTbl) (fn : String) (up : Bool) (a : PyVal)
    (hnum : (∃ n, a = .int n) ∨ (∃ n d, a = .float n d) ∨ (∃ b, a = .bool b) ∨ a = .floatNonFinite) :
    ∃ t ∈ allowedSteps (if up then "Up" else "Down"), actionOutcome tbls (.volStep fn up) [a] = .put fn t := by
  rcases hnum with ⟨n, rfl⟩ | ⟨n, d, rfl⟩ | ⟨b, rfl⟩ | rfl <;>
    simp only [actionOutcome, stepText, Option.bind, stepNumber, allowedSteps] <;>
    (repeat' split) <;> simp

/-- without an argument: the plain `Up`/`Down` -/
theorem C05_steps_default (tbls : List EnumTbl) (fn : String) (up : Bool) :
    actionOutcome tbls (.volStep fn up) [] = .put fn (if up then "Up" else "Down") := rfl

/-! ### the regenerated tables -/

def actionRecognised : ActionKind → Bool
  | .opaque _ => false
  | _ => true

/-- every action method of every class was recognised by the translator, relative steps exist only for the
    two volume functions, and the remote code length is 8 -/
def actionsOk (cs : List Cls) : Bool :=
  cs.all (fun c => c.actions.all (fun a => actionRecognised a.kind &&
    (match a.kind with
     | .volStep fn _ => fn == "VOL" || fn == "ZONEBVOL"
     | .fixedLen fn len => fn == "REMOTECODE" && len == 8
     | _ => true)))

theorem C05_actions_ok : actionsOk Gen.classes = true := by decide +kernel

/-- text limits of the regenerated tables are the documented device limit (9 characters for zone names) -/
def strLimitsOk (cs : List Cls) : Bool :=
  cs.all (fun c => c.fns.all (fun f => match f.conv with
    | .str mn mx => (f.name == "ZONENAME" || f.name == "ZONEBNAME") && mn == some 0 && mx == some 9 ||
                    (f.name != "ZONENAME" && f.name != "ZONEBNAME") && mn == none && mx == none
    | _ => true))

theorem C05_str_limits_ok : strLimitsOk Gen.classes = true := by decide +kernel

/-! ### non-vacuity -/
example : assignOutcome Gen.enums Gen.cls_Main "mute" (.member "Mute" "OFF") = .put "MUTE" "Off" := by decide +kernel
example : assignOutcome Gen.enums Gen.cls_Main "zonename" (.str "0123456789") = .raises := by decide +kernel
example : assignOutcome Gen.enums Gen.cls_Main "vol" (.str "abc") = .raises := by decide +kernel
example : assignOutcome Gen.enums Gen.cls_Main "avail" (.member "Avail" "READY") = .attributeError := by decide +kernel
example : actionOutcome Gen.enums (.volStep "VOL" true) [.float 2 1] = .put "VOL" "Up 2 dB" := by decide +kernel
example : actionOutcome Gen.enums (.volStep "VOL" false) [.bool true] = .put "VOL" "Down 1 dB" := by decide +kernel

end Ynca.C05
