import YncaVerif.Props.C13
/-! # C13 (extension) — the three statements of `Props/C13.lean` as one equivalence, and executions of the
model that meet their hypotheses (non-vacuity): a MODELNAME line that follows a start-up probe is withheld,
and the next MODELNAME line — no probe started since — is delivered. -/
namespace Ynca.C13
open Ynca.L4

/-- **exactly**: a received line is withheld if and only if it is a `SYS:MODELNAME` line and a probe was
    started since the previous line was processed — for every line of every execution -/
theorem C13_withheld_iff (P : Params) (s : St) (h : Reachable P s) :
    ∀ d ∈ s.decisions, (d.2.1 = true ↔ (isModelname d.1 = true ∧ d.2.2 = true)) := by
  intro d hd
  constructor
  · exact C13_only_if P s h d hd
  · rintro ⟨h1, h2⟩; exact C13_converse P s h d hd h1 h2

/-- the decision about a line does not depend on anything but the two facts above: two lines of one
    execution that agree on them are treated alike -/
theorem C13_decision_functional (P : Params) (s : St) (h : Reachable P s) :
    ∀ d ∈ s.decisions, ∀ e ∈ s.decisions, isModelname d.1 = isModelname e.1 → d.2.2 = e.2.2 → d.2.1 = e.2.1 := by
  intro d hd e he hm hp
  have h1 := C13_withheld_iff P s h d hd
  have h2 := C13_withheld_iff P s h e he
  rw [hm, hp] at h1
  cases hd1 : d.2.1 <;> cases he1 : e.2.1 <;> simp_all

/-! ### the hypotheses can be met -/
def demoP : Params := ⟨100, 1000, 2000, 500, 8⟩
def demoLine : List UInt8 := "@SYS:MODELNAME=RX\r\n".toUTF8.toList
/-- connect: the reader runs `connection_made` and blocks in `read`; the protocol is published -/
def demoUp : List Label := [.startR, .r, .r, .r, .r, .r, .r, .publish]
/-- the sender takes the first start-up probe: get / flag / log / lock / write / unlock / sleep / wake -/
def demoProbe : List Label := [.s, .s, .s, .s, .s, .s, .tick 100, .s]
/-- the device sends a MODELNAME line; the reader frames it, logs it, reads the flag, clears it -/
def demoRecv : List Label := [.dev demoLine, .rGet false, .r, .r, .rGet false, .r, .r, .r, .r]

/-- a probe has been started, the MODELNAME line arrives next: withheld (`(text, withheld, probe since)`), the
    flag is clear again and the reader is back at splitting its buffer -/
example : (run demoP {} (demoUp ++ demoProbe ++ demoRecv)).map (fun s => (s.decisions, s.kaPending, s.rpc)) =
    some ([("@SYS:MODELNAME=RX", true, true)], false, .split) := by decide +kernel

/-- the same line once more, no probe started in between: delivered — keep-alive handling swallows nothing else -/
example : (run demoP {} (demoUp ++ demoProbe ++ demoRecv ++ [.r, .r] ++ demoRecv ++ [.r])).map (fun s => s.decisions) =
    some [("@SYS:MODELNAME=RX", true, true), ("@SYS:MODELNAME=RX", false, false)] := by decide +kernel

/-- … and that execution is a `Reachable` state with a withheld and a delivered MODELNAME line, so the
    quantifiers of `C13_only_if`, `C13_delivered_otherwise`, `C13_converse`, `C13_withheld_iff` range over
    something -/
example : ∃ s, Reachable demoP s ∧ (∃ d ∈ s.decisions, d.2.1 = true) ∧ (∃ d ∈ s.decisions, isModelname d.1 = true ∧ d.2.1 = false) := by
  have h : (run demoP {} (demoUp ++ demoProbe ++ demoRecv ++ [.r, .r] ++ demoRecv ++ [.r])).isSome = true := by decide +kernel
  obtain ⟨s, hs⟩ := Option.isSome_iff_exists.mp h
  refine ⟨s, ⟨_, hs⟩, ?_⟩
  have hd : (run demoP {} (demoUp ++ demoProbe ++ demoRecv ++ [.r, .r] ++ demoRecv ++ [.r])).map (fun s => s.decisions) =
      some [("@SYS:MODELNAME=RX", true, true), ("@SYS:MODELNAME=RX", false, false)] := by decide +kernel
  rw [hs] at hd
  simp only [Option.map_some, Option.some.injEq] at hd
  rw [hd]
  refine ⟨⟨_, List.mem_cons_self, rfl⟩, ⟨_, List.mem_cons_of_mem _ List.mem_cons_self, ?_, rfl⟩⟩
  decide +kernel

end Ynca.C13
