import YncaVerif.Lemmas.C15x
import YncaVerif.Props.C15
/-! # C15 (extension) — "commands still queued are discarded rather than written later", over whole
    executions of the L4 model

`drainDone r` says that the reader is past the drain loop of `connection_lost` (program counters
`lost 2`, `lostJoin _`, `lost 4`, `lost 5`, `inDiscCb`, `done`).  `s0` is ANY state in which the reader is
not yet past the drain — in particular the state in which the transport failed, but also every later
state up to the last step of the drain loop — and `submittedCmds s0` are the user commands enqueued by
then (ids are unique, `C01_ids_unique`, so a pair `(id, text)` identifies a submission).

What the model does NOT give, and why the statements have this shape:
* while the drain loop runs, the sender thread races with it and may legitimately take a queued command
  and write it (the loop removes one item per step); hence the guarantee starts when the loop is over;
* the sender may already hold one command when the drain finishes (`inflight s.spc`); that one can still
  be written;
* callers can still enqueue after the loss has begun (`put` only looks at `_protocol`); such commands
  have ids `≥ s0.nextId`, they are not "still queued when the transport failed", and if they get in
  before the exit marker the sender does write them. -/
namespace Ynca.C15
open Ynca.L4

/-- **queued commands are discarded**: once the reader is past the drain loop of `connection_lost`, no
    command that had been submitted by the time of `s0` (any state before the end of the drain, e.g. the
    state in which the transport failed) is in the send queue. -/
theorem C15_queued_discarded (P : Params) (s0 s : St) (ls : List Label)
    (h0 : Reachable P s0) (hpre : drainDone s0.rpc = false)
    (hrun : run P s0 ls = some s) (hpost : drainDone s.rpc = true) :
    ∀ c ∈ submittedCmds s0, c ∉ queueCmds s.queue := by
  intro c hc hq
  have h1 := submittedCmds_id_lt P s0 h0 c hc
  have h2 := (drained_queue_new P s0 s ls hpre hrun hpost).2 c hq
  omega

/-- … and this stays so in every later state (ids are never reused, the drain is never undone) -/
theorem C15_queued_discarded_forever (P : Params) (s0 s s' : St) (ls ls' : List Label)
    (h0 : Reachable P s0) (hpre : drainDone s0.rpc = false)
    (hrun : run P s0 ls = some s) (hpost : drainDone s.rpc = true) (hrun' : run P s ls' = some s') :
    drainDone s'.rpc = true ∧ ∀ c ∈ submittedCmds s0, c ∉ queueCmds s'.queue := by
  have hd : drainDone s'.rpc = true :=
    run_invariant P (fun s => drainDone s.rpc = true) (fun s s' l o h hs => drainDone_final P s s' l o h hs)
      ls' s s' hpost hrun'
  refine ⟨hd, C15_queued_discarded P s0 s' (ls ++ ls') h0 hpre ?_ hd⟩
  rw [run_append, hrun]; simpa using hrun'

/-- **not written later**: after the drain (state `s`) the wire only grows (`s'.wire = s.wire ++ ext`), and
    the commands submitted by the time of `s0` that are written after `s` or are in the sender's hands at
    `s'` form a sub-list of what the sender held at `s` — at most the one command the sender had already
    taken out of the queue. -/
theorem C15_not_written_later (P : Params) (s0 s s' : St) (ls ls' : List Label)
    (h0 : Reachable P s0) (hpre : drainDone s0.rpc = false)
    (hrun : run P s0 ls = some s) (hpost : drainDone s.rpc = true) (hrun' : run P s ls' = some s') :
    ∃ ext, s'.wire = s.wire ++ ext ∧
      ((wireCmds ext ++ inflight s'.spc).filter (fun c => decide (c ∈ submittedCmds s0))).Sublist (inflight s.spc) := by
  obtain ⟨ext, hw, hsub⟩ :=
    wire_growth P s0.nextId s s' ls' (drained_queue_new P s0 s ls hpre hrun hpost) hrun'
  refine ⟨ext, hw, ?_⟩
  -- "submitted by s0" implies "id below s0.nextId"
  have hlt := submittedCmds_id_lt P s0 h0
  have h1 : ((wireCmds ext ++ inflight s'.spc).filter (fun c => decide (c ∈ submittedCmds s0))).Sublist
      (oldC s0.nextId (wireCmds ext ++ inflight s'.spc)) := by
    unfold oldC
    apply filter_sublist_filter
    intro c hc
    simp only [decide_eq_true_eq] at hc ⊢
    exact hlt c hc
  exact (h1.trans hsub).trans (List.filter_sublist)

/-- corollary in plain words: a command submitted by the time of `s0` and written after the drain was in
    the sender's hands when the drain finished, and there is at most one such write -/
theorem C15_at_most_one_late_write (P : Params) (s0 s s' : St) (ls ls' : List Label)
    (h0 : Reachable P s0) (hpre : drainDone s0.rpc = false)
    (hrun : run P s0 ls = some s) (hpost : drainDone s.rpc = true) (hrun' : run P s ls' = some s') :
    ∃ ext, s'.wire = s.wire ++ ext ∧
      (∀ c ∈ wireCmds ext, c ∈ submittedCmds s0 → c ∈ inflight s.spc) ∧
      ((wireCmds ext).filter (fun c => decide (c ∈ submittedCmds s0))).length ≤ 1 := by
  obtain ⟨ext, hw, hsub⟩ := C15_not_written_later P s0 s s' ls ls' h0 hpre hrun hpost hrun'
  rw [List.filter_append] at hsub
  have hsub' := (List.sublist_append_left _ _).trans hsub
  refine ⟨ext, hw, ?_, ?_⟩
  · intro c hc hs
    exact hsub'.subset (List.mem_filter.2 ⟨hc, by simpa using hs⟩)
  · exact Nat.le_trans hsub'.length_le (inflight_length _)

/-- with an idle sender at the end of the drain nothing submitted by `s0` is ever written again -/
theorem C15_nothing_late_if_sender_idle (P : Params) (s0 s s' : St) (ls ls' : List Label)
    (h0 : Reachable P s0) (hpre : drainDone s0.rpc = false)
    (hrun : run P s0 ls = some s) (hpost : drainDone s.rpc = true) (hrun' : run P s ls' = some s')
    (hidle : inflight s.spc = []) :
    ∃ ext, s'.wire = s.wire ++ ext ∧ ∀ c ∈ wireCmds ext, c ∉ submittedCmds s0 := by
  obtain ⟨ext, hw, h1, _⟩ := C15_at_most_one_late_write P s0 s s' ls ls' h0 hpre hrun hpost hrun'
  refine ⟨ext, hw, fun c hc hs => ?_⟩
  have := h1 c hc hs
  rw [hidle] at this; cases this

/-! ### non-vacuity: a command is queued, the link drops, the drain discards it -/
def demoP : Params := ⟨100, 1000, 2000, 500, 8⟩
/-- connect, publish, one caller submits a command, the reader blocks in read -/
def demoUp : List Label :=
  [.startR, .r, .r, .r, .r, .r, .publish, .call 10 "@MAIN:VOL=1", .u 10, .r]
/-- the link drops; the reader notices, drains three items (two probes and the command), finds the queue empty -/
def demoLoss : List Label := [.fault, .rGet false, .r, .r, .r, .r, .r]

example : (run demoP {} demoUp).map (fun s => (drainDone s.rpc, submittedCmds s, queueCmds s.queue)) =
    some (false, [(0, "@MAIN:VOL=1")], [(0, "@MAIN:VOL=1")]) := by decide +kernel
example : (run demoP {} (demoUp ++ demoLoss)).map (fun s => (s.rpc, s.queue)) =
    some (.lost 2, []) := by decide +kernel
example : (run demoP {} (demoUp ++ demoLoss)).map (fun s => (wireCmds s.wire, inflight s.spc)) =
    some ([], []) := by decide +kernel

/-- the bound "at most the one command the sender already holds" is attained: the reader drains the two
    probes, the sender takes the command, the reader finds the queue empty; the sender then writes it -/
def demoRace : List Label := [.fault, .rGet false, .r, .r, .r, .s, .r]
example : (run demoP {} (demoUp ++ demoRace)).map (fun s => (drainDone s.rpc, s.queue, inflight s.spc)) =
    some (true, [], [(0, "@MAIN:VOL=1")]) := by decide +kernel
example : (run demoP {} (demoUp ++ demoRace ++ [.s, .s, .s, .s])).map (fun s => (wireCmds s.wire, inflight s.spc)) =
    some ([(0, "@MAIN:VOL=1")], []) := by decide +kernel

end Ynca.C15
