import YncaVerif.Props.C01
/-! # C01 (extension) — "at most once" and "in order" spelled out on the wire itself, and an execution that
meets the hypotheses of `C01_quiescent_complete` with two callers (non-vacuity). -/
namespace Ynca.C01
open Ynca.L4

/-- **at most once, on the wire**: no submission (identified by its id) is written twice -/
theorem C01_wire_ids_nodup (P : Params) (s : St) (h : Reachable P s) : ((wireCmds s.wire).map (·.1)).Nodup := by
  have hsub : List.Sublist (wireCmds s.wire) (submittedCmds s) :=
    ((List.sublist_append_left _ _).trans (List.sublist_append_left _ _)).trans (C01_sublist P s h)
  exact (hsub.map (·.1)).nodup (C01_ids_unique P s h)

/-- **text unchanged**: every user command on the wire is one of the submissions, id and text together -/
theorem C01_wire_cmd_was_submitted (P : Params) (s : St) (h : Reachable P s) :
    ∀ c ∈ wireCmds s.wire, c ∈ submittedCmds s := by
  intro c hc
  have hsub : List.Sublist (wireCmds s.wire) (submittedCmds s) :=
    ((List.sublist_append_left _ _).trans (List.sublist_append_left _ _)).trans (C01_sublist P s h)
  exact hsub.subset hc

/-- **in order**: the user commands on the wire are an order-preserving sub-sequence of the submissions — so any
    two commands of one caller (of any callers) are written in the order they were submitted -/
theorem C01_wire_in_submission_order (P : Params) (s : St) (h : Reachable P s) :
    List.Sublist (wireCmds s.wire) (submittedCmds s) :=
  ((List.sublist_append_left _ _).trans (List.sublist_append_left _ _)).trans (C01_sublist P s h)

/-! ### the hypotheses can be met -/
def demoP : Params := ⟨100, 1000, 2000, 500, 8⟩
/-- connect: the reader runs `connection_made` and blocks in `read`; the protocol is published -/
def demoUp : List Label := [.startR, .r, .r, .r, .r, .r, .r, .publish]
/-- callers 10 and 11 start a command each; 11 overtakes 10 at the queue -/
def demoCalls : List Label := [.call 10 "@MAIN:VOL=1", .call 11 "@MAIN:MUTE=On", .u 11, .u 10, .u 10, .u 11]
/-- the sender takes one item through get / classify / log / lock / write / unlock / sleep / wake -/
def demoSend : List Label := [.s, .s, .s, .s, .s, .s, .tick 100, .s]
def demoRun : List Label := demoUp ++ demoCalls ++ demoSend ++ demoSend ++ demoSend ++ demoSend

/-- two probes, then the two commands in the order of their enqueue (11 before 10), 100 apart; the sender is
    back in its idle wait with an empty queue and the reader has not begun `connection_lost`: the hypotheses of
    `C01_quiescent_complete` hold, and so does its conclusion -/
example : (run demoP {} demoRun).map (fun s => (s.wire.map (·.2.1), wireCmds s.wire, submittedCmds s)) =
    some ([probe, probe, "@MAIN:MUTE=On", "@MAIN:VOL=1"], [(0, "@MAIN:MUTE=On"), (1, "@MAIN:VOL=1")],
          [(0, "@MAIN:MUTE=On"), (1, "@MAIN:VOL=1")]) := by decide +kernel

example : (run demoP {} demoRun).map (fun s => (s.queue.isEmpty, s.spc, lossBegun s.rpc)) =
    some (true, .waitGet 1400, false) := by decide +kernel

end Ynca.C01
