import YncaVerif.Lemmas.C01
/-! # C01 — commands reach the wire at most once, unchanged, in submission order; nothing else but probes
Over the L4 model.  `submitted` is the ghost list of commands in the linearisation order of their
enqueue; ids are unique, so a pair `(id, text)` on the wire identifies the submission and its text. -/
namespace Ynca.C01
open Ynca.L4

/-- **at most once, in order, text unchanged**: what is on the wire, in the sender's hands and still
    queued — in this order — is an order-preserving sub-sequence of what was submitted -/
theorem C01_sublist (P : Params) (s : St) (h : Reachable P s) :
    List.Sublist (wireCmds s.wire ++ inflight s.spc ++ queueCmds s.queue) (submittedCmds s) :=
  fifo_sublist P s h

/-- ids are unique (hence "at most once" is about submissions, not texts) -/
theorem C01_ids_unique (P : Params) (s : St) (h : Reachable P s) : ((submittedCmds s).map (·.1)).Nodup :=
  submitted_ids_nodup P s h

/-- **nothing is lost while the connection is up**: before the reader begins `connection_lost` and
    unless the sender died on a write error, that sub-sequence is everything -/
theorem C01_nothing_lost_while_up (P : Params) (s : St) (h : Reachable P s)
    (hup : lossBegun s.rpc = false) (hs : s.spc ≠ .dead) :
    wireCmds s.wire ++ inflight s.spc ++ queueCmds s.queue = submittedCmds s :=
  fifo_exact_while_up P s h hup hs

/-- **quiescence**: connection up, queue empty, sender back in its idle wait ⇒ every submitted command
    has been written -/
theorem C01_quiescent_complete (P : Params) (s : St) (h : Reachable P s)
    (hup : lossBegun s.rpc = false) (hq : s.queue = []) (d : Nat) (hs : s.spc = .waitGet d) :
    wireCmds s.wire = submittedCmds s := by
  have := fifo_exact_while_up P s h hup (by rw [hs]; simp)
  simpa [hq, hs, inflight, queueCmds] using this

/-- **nothing but probes otherwise**: every write that is not a user command is the keep-alive probe -/
theorem C01_only_probes_else (P : Params) (s : St) (h : Reachable P s) :
    ∀ e ∈ s.wire, e.2.2 = none → e.2.1 = probe :=
  wire_non_user_is_probe P s h

end Ynca.C01
