import YncaVerif.Lemmas.ApiTimed2
import YncaVerif.Gen.Consts
import YncaVerif.Gen.Functions
/-! # C14 — `initialize()` ends within a bounded time, whatever happens (L7t, Model/ApiTimed.lean)

The budget: with `D = 2 s + 5·spacing·N` the longest single wait (no stage submits more than `N` commands) and one object per class at
most, `initialize()` has returned or raised by `t0 + D·(2 + number of classes)` — for every device, every delivery of messages, every
outcome of every stage, every timing.  The clock of one stage is L5's (`C06_bounded`, `C06_timeout_enabled`), validated on real runs by
the C06 monitor's `timeout-bound` rule; L7t composes the stages.  `C14t_projects_to_L7`: what L7t adds to L7 are constraints only — every
L7t execution is an L7 execution, so L7's theorems and its correspondence with the code carry over. -/
namespace Ynca.C14t
open Ynca.L7

/-- every L7t execution is an L7 execution (the `construct` labels erased) -/
theorem C14t_projects_to_L7 (P : Params) (N : Nat) (s : T) (h : ReachableT P N s) : L7.Reachable P s.a :=
  reachableT_project P N s h

/-- the budget in terms of the parameters only -/
def budget (P : Params) (N : Nat) : Nat := D P N * (2 + P.classIds.length)

theorem B_le_budget (P : Params) (N t0 : Nat) (av : List String) (h : av.Nodup) :
    B P N t0 (plan P.classIds av).length ≤ t0 + budget P N := by
  have hl := plan_length_le P.classIds av h
  have := B_mono P N t0 hl
  unfold B budget at *
  have e : 1 + (P.classIds.length + 1) = 2 + P.classIds.length := by omega
  rw [e] at this
  exact this

/-- **bounded**: when `initialize()` has returned or raised, it did so within the budget -/
theorem C14t_done_within_budget (P : Params) (N : Nat) (s : T) (h : ReachableT P N s)
    (hd : s.a.phase = .ready ∨ s.a.phase = .failed) :
    ∃ t, s.doneAt = some t ∧ t ≤ s.t0 + budget P N := by
  obtain ⟨hI, hT⟩ := tinv_reachable P N s h
  unfold TInv at hT
  rcases hd with hd | hd <;>
  · simp only [hd] at hT
    obtain ⟨t, ht, hle⟩ := hT
    exact ⟨t, ht, Nat.le_trans hle (B_le_budget P N s.t0 s.a.avail hI.nodup)⟩

/-- **never hangs**: while `initialize()` is in progress the clock has not passed the budget -/
theorem C14t_in_progress_within_budget (P : Params) (N : Nat) (s : T) (h : ReachableT P N s)
    (hp : s.a.phase = .enqueueing ∨ (∃ dl, s.a.phase = .detecting dl) ∨ ∃ todo, s.a.phase = .building todo) :
    s.a.now ≤ s.t0 + budget P N := by
  obtain ⟨hI, hT⟩ := tinv_reachable P N s h
  have hbud := B_le_budget P N s.t0 s.a.avail hI.nodup
  have hpos := plan_length_pos P.classIds s.a.avail
  unfold TInv at hT
  rcases hp with hp | ⟨dl, hp⟩ | ⟨todo, hp⟩
  · simp only [hp] at hT
    omega
  · simp only [hp] at hT
    have h0 := B_zero P N s.t0
    have := B_mono P N s.t0 (Nat.zero_le (plan P.classIds s.a.avail).length)
    omega
  · simp only [hp] at hT
    have hph := hI.phase
    unfold PhaseInv at hph
    rw [hp] at hph
    have htodo : 1 ≤ todo.length := by
      cases todo with
      | nil => exact absurd rfl hph.2.2.2.1
      | cons _ _ => simp
    cases hdl : s.objDl with
    | none =>
      rw [hdl] at hT
      simp only [] at hT
      have := B_mono P N s.t0 (show s.built ≤ (plan P.classIds s.a.avail).length by omega)
      omega
    | some dl =>
      rw [hdl] at hT
      simp only [] at hT
      have := B_mono P N s.t0 (show s.built ≤ (plan P.classIds s.a.avail).length by omega)
      omega

/-- in progress there is always something other than waiting for ever: between two objects and while submitting, no time passes at all;
    a running wait cannot be overrun -/
theorem C14t_clock_is_urgent (P : Params) (N : Nat) (s : T) (d : Nat) :
    (s.a.phase = .enqueueing → stepT P N s (.base (.tick d)) = none) ∧
    (∀ todo, s.a.phase = .building todo → s.objDl = none → stepT P N s (.base (.tick d)) = none) ∧
    (∀ todo dl, s.a.phase = .building todo → s.objDl = some dl → dl < s.a.now + d → stepT P N s (.base (.tick d)) = none) := by
  refine ⟨?_, ?_, ?_⟩
  · intro hp; simp [stepT, hp]
  · intro todo hp hn; simp [stepT, hp, hn]
  · intro todo dl hp hs hlt
    simp [stepT, hp, hs]
    intro hle; omega

/-- **no time-lock, no dead end**: while `initialize()` is in progress some step other than the passage of time is enabled, or time can
    pass up to the running wait's deadline (at which the time-out is enabled) -/
theorem C14t_always_a_step (P : Params) (N : Nat) (s : T) (h : ReachableT P N s)
    (hp : s.a.phase = .enqueueing ∨ (∃ dl, s.a.phase = .detecting dl) ∨ ∃ todo, s.a.phase = .building todo) :
    (∃ l, (∀ d, l ≠ .base (.tick d)) ∧ (stepT P N s l).isSome) ∨
    (∃ dl, s.a.phase = .detecting dl ∧ s.a.now < dl ∧ (stepT P N s (.base (.tick (dl - s.a.now)))).isSome) := by
  obtain ⟨hI, hT⟩ := tinv_reachable P N s h
  have hph := hI.phase
  unfold PhaseInv at hph
  rcases hp with hp | ⟨dl, hp⟩ | ⟨todo, hp⟩
  · left
    refine ⟨.base (.wait 0), by intro d; simp, ?_⟩
    simp [stepT, step, hp]
  · by_cases he : s.a.event = true
    · left
      refine ⟨.base .wake, by intro d; simp, ?_⟩
      simp [stepT, step, hp, he]
    · by_cases hd : dl ≤ s.a.now
      · left
        refine ⟨.base .timeout, by intro d; simp, ?_⟩
        simp [stepT, step, hp, hd]
      · right
        refine ⟨dl, hp, by omega, ?_⟩
        have : s.a.now + (dl - s.a.now) ≤ dl := by omega
        simp [stepT, step, hp, he, this]
  · left
    rw [hp] at hph
    cases hdl : s.objDl with
    | none =>
      cases todo with
      | nil => exact absurd rfl hph.2.2.2.1
      | cons i rest =>
        refine ⟨.construct 0, by intro d; simp, ?_⟩
        simp [stepT, hp, hdl]
    | some d0 =>
      cases todo with
      | nil => exact absurd rfl hph.2.2.2.1
      | cons i rest =>
        refine ⟨.base .subunitOk, by intro d; simp, ?_⟩
        simp [stepT, step, hp, hdl]

/-! ## with the regenerated tables: 23 classes, the longest initial query list -/

def realParams : Params := { classIds := Gen.classes.map (·.id), perCmdUs := 5 * Gen.spacingUs }

/-- no stage of the real library submits more than 120 commands (the detection stage submits one per subunit id and the sync query; a subunit
    object one per distinct initial query and the sync query) -/
theorem C14t_stage_sizes : Gen.subunitIds.length + 1 ≤ 120 ∧
    Gen.classes.all (fun c => c.fns.length + 1 ≤ 120) = true := by decide +kernel

/-- the budget of the real library, in microseconds: (2 s + 0.5 s · 120) · (2 + 23) = 1 550 s — a finite number, which is the point -/
example : budget realParams 120 = 1550000000 := by decide +kernel

/-! non-vacuity: a run that ends ready inside the budget, with the ghost `doneAt` -/
def okMsg (s f v : String) : Msg := ⟨.ok, some s, some f, some v⟩

example : (runT realParams 120 {} [.base .start, .base (.wait 24), .base (.tick 2600000), .base (.msg (okMsg "MAIN" "AVAIL" "Ready")),
      .base (.msg (okMsg "SYS" "VERSION" "1.0")), .base .wake, .construct 30, .base (.tick 3000000), .base .subunitOk,
      .construct 60, .base (.tick 6000000), .base .subunitOk]).map (fun s => (s.a.phase, s.a.subunits, s.doneAt, s.built)) =
    some (.ready, ["SYS", "MAIN"], some 11600000, 2) := by decide +kernel

/-- a wait cannot be overrun: one microsecond past the object's deadline is not a step -/
example : runT realParams 120 {} [.base .start, .base (.wait 24), .base (.msg (okMsg "SYS" "VERSION" "1.0")), .base .wake,
      .construct 30, .base (.tick 17000001)] = none := by decide +kernel

end Ynca.C14t
