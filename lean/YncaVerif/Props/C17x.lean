import YncaVerif.Lemmas.C17x
import YncaVerif.Props.C15
import YncaVerif.Props.C17
/-! # C17x — close() after a failed connect() (the `finally:` of `connection_check`, L4 model)

`connect()` fails when the link is lost before the connection is set up (label `connectFailed`): `_protocol` is
never assigned but `_readerthread` is.  The `close()` that follows does not clear the disconnect callback
(`if self._protocol:` is false) and runs pyserial's `ReaderThread.close()` in full: take the transport lock,
`alive := False`, `join(2 s)` on the reader thread, `serial.close()`, release the lock.  In the model this is the
branch of `callClose` that enters `close()` at `c1` instead of `c0`; its ghost state is `closeUnpub` (one was
entered), `unpubCloseAt` (when the first one was entered), `unpubClosers` (threads inside one) and
`unpubCloseReturned` (one has returned).  `closeStarted` keeps its meaning "a close() has cleared the callback" and
is NOT set on this path, so `C16_callback_cleared` and `C15_exactly_once` are unchanged and still say what they said:
the former does not apply to this path, the latter does (and the callback is invoked, as the implementation does). -/
namespace Ynca.C17
open Ynca.L4 Ynca.L4.C17L

/-- **clean-up after a failed connect**: once a close() entered on the unpublished path has returned, the port
    is closed, the reader has been told to stop, and the reader thread has ended or the 2 s join time-out has
    elapsed since (the first such) close() was called -/
theorem C17_close_after_failed_connect (P : Params) (s : St) (h : Reachable P s)
    (hr : s.unpubCloseReturned = true) :
    s.portOpen = false ∧ s.alive = false ∧ (s.rpc = .done ∨ s.unpubCloseAt + P.joinTimeout ≤ s.now) := by
  obtain ⟨_, hret, hj⟩ := (unpubInv_reachable P s h).ret hr
  obtain ⟨hp, ha⟩ := C16.C16_after_return P s h hret
  exact ⟨hp, ha, hj⟩

/-- this path is taken exactly when `_protocol` is unassigned, the reader thread has been started and the caller
    is not the reader thread; it neither clears the disconnect callback nor counts as a close() that did -/
theorem C17_unpublished_close_entry (P : Params) (s s' : St) (t : Tid) (o : Option Obs)
    (hp : s.published = false) (hr : s.rpc ≠ .notStarted) (ht : t ≠ tidR)
    (h : step P s (.callClose t) = some (s', o)) :
    upcOf s' t = .closing .c1 ∧ s'.closeUnpub = true ∧ s'.discCbSet = s.discCbSet ∧
      s'.closeStarted = s.closeStarted ∧ o = none := by
  by_cases hm : mayCall s t = true
  · simp only [step, hm, hp, hr, ht, if_true, if_false, Bool.false_eq_true, ne_eq, not_false_eq_true,
      Option.some.injEq, Prod.mk.injEq] at h
    obtain ⟨rfl, rfl⟩ := h
    simp
  · simp [step, hm] at h

/-- the same call made on the reader thread itself (from a callback that runs before `connect()` has returned): the
    no-join variant of close(), again without clearing the disconnect callback -/
theorem C17_unpublished_close_entry_on_reader (P : Params) (s s' : St) (o : Option Obs)
    (hp : s.published = false) (h : step P s (.callClose tidR) = some (s', o)) :
    upcOf s' tidR = .closing .r1 ∧ s'.closeUnpub = true ∧ s'.discCbSet = s.discCbSet ∧
      s'.closeStarted = s.closeStarted ∧ o = none := by
  by_cases hm : mayCall s tidR = true
  · have hr : s.rpc ≠ .notStarted := by
      intro hr; simp [mayCall, hr, readerInCallback] at hm
    simp only [step, hm, hp, hr, if_true, if_false, Bool.false_eq_true, ne_eq, not_false_eq_true,
      Option.some.injEq, Prod.mk.injEq] at h
    obtain ⟨rfl, rfl⟩ := h
    simp
  · simp [step, hm] at h

/-- as long as `connect()` has not completed, no close() has cleared the disconnect callback: it is still set -/
theorem C17_callback_kept_while_unpublished (P : Params) (s : St) (h : Reachable P s) (hp : s.published = false) :
    s.closeStarted = false ∧ s.discCbSet = true := by
  have hc : s.closeStarted = false := by
    cases hcs : s.closeStarted with
    | false => rfl
    | true => have := started_published P s h hcs; simp [hp] at this
  exact ⟨hc, (discInv_reachable P s h).cbSet hc⟩

/-- …so the loss that made `connect()` fail is still reported, exactly once, when the reader thread ends — whether
    or not a close() was called in between (this is what the implementation does: the `disc` event of the real traces) -/
theorem C17_failed_connect_loss_reported (P : Params) (s : St) (h : Reachable P s) (hp : s.published = false)
    (hd : s.rpc = .done) : s.discCalls = 1 :=
  C15.C15_exactly_once P s h hd (C17_callback_kept_while_unpublished P s h hp).1

/-- the link drops at once: the first probe is written at 0, the reader meets the fault, runs `connection_lost`
    (drain, exit marker, join the sender), `connect()` fails and closes the port, the caller (thread 10) calls
    close(); the sender leaves when its command spacing ends at 100 ms, the reader then invokes the disconnect
    callback and ends, and only then does close() return -/
def failedConnectThenClose : List Label :=
  [.startR, .fault, .r, .r, .r, .r, .r,
   .s, .s, .s, .s, .s, .s,
   .r, .rGet false, .r, .connectFailed,
   .callClose 10, .u 10, .u 10,
   .r, .r, .r,
   .tick 100000, .s, .s, .s,
   .r, .r, .cbRet, .r,
   .u 10, .u 10, .u 10, .u 10]

/-- **non-vacuity** (the trace shape observed on the implementation): the close() has returned at 100 ms — not
    at once —, the callback was not cleared and has been invoked once, the reader is done, the port closed -/
example :
    (run P0 {} failedConnectThenClose).map (fun s => decide
      (s.unpubCloseReturned = true ∧ s.published = false ∧ s.closeStarted = false ∧ s.discCalls = 1 ∧
       s.rpc = .done ∧ s.spc = .done ∧ s.portOpen = false ∧ s.alive = false ∧ s.lock = none ∧
       s.unpubCloseAt = 0 ∧ s.now = 100000 ∧ upcOf s 10 = .idle)) = some true := by
  decide +kernel

/-- the sender is stuck behind the transport lock that close() holds: the reader's join of the sender and close()'s
    join of the reader both run into their 2 s time-outs; close() returns while the reader thread is still alive -/
def failedConnectStuckSender : List Label :=
  [.startR, .fault, .r, .r, .r, .r, .r,
   .s, .s, .s,
   .r, .rGet false, .r, .connectFailed,
   .callClose 10, .u 10, .u 10,
   .r, .r, .r,
   .tick 2000000,
   .u 10, .u 10, .u 10, .u 10]

/-- **non-vacuity of the time-out disjunct**: close() has returned at 2 s with the reader still in its own join -/
example :
    (run P0 {} failedConnectStuckSender).map (fun s => decide
      (s.unpubCloseReturned = true ∧ s.published = false ∧ s.rpc = .lostJoin 2000000 ∧
       s.spc = .lockWait probe none ∧ s.portOpen = false ∧ s.alive = false ∧ s.discCbSet = true ∧
       s.unpubCloseAt = 0 ∧ s.now = 2000000)) = some true := by
  decide +kernel

/-- …after which the reader gives up its join and still reports the loss (the `disc` event at 2 s of the real traces) -/
example :
    (run P0 {} (failedConnectStuckSender ++ [.r, .r])).map (fun s => (s.rpc, s.discCalls, s.now)) =
      some (.inDiscCb, 1, 2000000) := by
  decide +kernel

/-- a message callback that runs on the reader thread before `connect()` has returned calls close() -/
def readerClosesBeforePublish : List Label :=
  [.reg 10 1, .startR, .r, .r, .r, .r, .r, .dev reply, .r, .rGet false, .r, .r, .r, .r, .rCb 1,
   .callClose tidR, .u tidR, .u tidR, .u tidR, .u tidR]

/-- **non-vacuity of the reader-thread variant** -/
example :
    (run P0 {} readerClosesBeforePublish).map (fun s => decide
      (s.published = false ∧ s.closeUnpub = true ∧ s.closeStarted = false ∧ s.discCbSet = true ∧
       s.closeReturned = true ∧ s.portOpen = false ∧ s.alive = false ∧ s.msgCbs = [] ∧ s.rcall = .idle ∧
       s.unpubClosers = [] ∧ s.unpubCloseReturned = false)) = some true := by
  decide +kernel

end Ynca.C17
