import YncaVerif.Lemmas.C09
/-! # C09 — each reported value notifies every update callback exactly once, safely (subunit level)

`recv` is delivery with inert callbacks, `recvScripted` delivery with callbacks that re-entrantly
register / unregister callbacks or close the subunit (`script cb` = what callback `cb` does when
invoked).  Concurrent mutation from other threads and the message-level callbacks of the connection
are covered by the L4 model. -/
namespace Ynca.C09

/-- message `m` reports value `val` for modelled function `f` of `st`'s subunit -/
abbrev Reports := @Ynca.Reports

/-- **exactly once, after the cache update**: an initialised, open subunit invokes every registered
    callback exactly once (in registration order) with the protocol name and the decoded value, and the
    cache already holds that value -/
theorem C09_exactly_once (tbls : List EnumTbl) (ex : Exotic) (st : SubSt) (m : Msg) (f : String) (val : Val)
    (hinit : st.initialized = true) (hopen : st.closed = false) (hr : Reports tbls ex st m f val) :
    (recv tbls ex st m).calls = st.calls ++ st.cbs.map (fun cb => ⟨cb, f, val⟩) ∧
    cacheGet (recv tbls ex st m).cache f = some val :=
  recv_calls_reported tbls ex st m f val hinit hopen hr

/-- **filter**: no callback for error replies, other subunits, unknown functions, missing or undecodable
    values, before initialisation has completed, or after close -/
theorem C09_filter (tbls : List EnumTbl) (ex : Exotic) (st : SubSt) (m : Msg)
    (h : st.initialized = false ∨ st.closed = true ∨ ¬ ∃ f val, Reports tbls ex st m f val) :
    (recv tbls ex st m).calls = st.calls :=
  recv_calls_filtered tbls ex st m h

/-- **order**: invocations are only ever appended, in message arrival order -/
theorem C09_order (tbls : List EnumTbl) (ex : Exotic) (st : SubSt) (h : List Msg) :
    ∃ more, (h.foldl (recv tbls ex) st).calls = st.calls ++ more :=
  foldl_recv_calls_prefix tbls ex st h

/-- **unregistered / closed**: after `unregister` a callback is not invoked any more; after `close` none is -/
theorem C09_unregistered (tbls : List EnumTbl) (ex : Exotic) (st : SubSt) (cb : Nat) (h : List Msg) :
    ∀ c ∈ ((h.foldl (recv tbls ex) (unregisterCb st cb)).calls.drop st.calls.length), c.cb ≠ cb :=
  no_calls_after_unregister tbls ex st cb h

theorem C09_closed (tbls : List EnumTbl) (ex : Exotic) (st : SubSt) (h : List Msg) :
    (h.foldl (recv tbls ex) (closeSub st)).calls = st.calls :=
  no_calls_after_close tbls ex st h

/-- a callback stays registered during a delivery: no callback's script unregisters it or closes the subunit -/
abbrev StaysRegistered := @Ynca.StaysRegistered

/-- **mutation safe (re-entrant)**: whatever the callbacks do (register, unregister, close — any scripts),
    every callback that was registered when the delivery began and stays registered is invoked exactly
    once for the message, a callback outside the snapshot is not invoked, and nobody is invoked twice -/
theorem C09_mutation_safe (tbls : List EnumTbl) (ex : Exotic) (script : Nat → List CbOp)
    (st : SubSt) (m : Msg) (f : String) (val : Val)
    (hinit : st.initialized = true) (hopen : st.closed = false) (hnd : st.cbs.Nodup)
    (hr : Reports tbls ex st m f val) :
    let st' := recvScripted tbls ex script st m
    let new := st'.calls.drop st.calls.length
    st'.calls.take st.calls.length = st.calls ∧
    (∀ c ∈ new, c.fn = f ∧ c.val = val ∧ c.cb ∈ st.cbs) ∧
    (new.map (·.cb)).Nodup ∧
    (∀ cb ∈ st.cbs, StaysRegistered script st.cbs cb → (⟨cb, f, val⟩ : CbCall) ∈ new) :=
  recvScripted_safe tbls ex script st m f val hinit hopen hnd hr

/-- with inert callbacks the scripted delivery is the plain one -/
theorem C09_scripted_inert (tbls : List EnumTbl) (ex : Exotic) (st : SubSt) (m : Msg) (hnd : st.cbs.Nodup) :
    recvScripted tbls ex (fun _ => []) st m = recv tbls ex st m :=
  recvScripted_inert tbls ex st m hnd

end Ynca.C09
