import YncaVerif.Lemmas.C09x
/-! # C09 (extension) — message callbacks on the concurrent model L4: exactly-once delivery of a line
    under registration and unregistration from other threads and from inside a callback

`Props/C09.lean` proves exactly-once delivery for the sequential model of a subunit's update callbacks.
This file proves the message-level part of C09 on L4, where the reader thread delivers a line by taking
a snapshot of the registry (`RPc.line2 l false  --r-->  RPc.deliver l s.msgCbs`), then repeatedly picks
ANY callback of the snapshot that is still to do (`Label.rCb cb`), invokes it if it is registered at that
moment (`Obs.msgCb cb (parseLine l)`, the reader is then at `RPc.inCb l cb todo` until `Label.cbRet`) and
skips it otherwise, and finishes the line when nothing is left (`RPc.deliver l []  --r-->  RPc.split`).
`Label.reg t cb` / `Label.unreg t cb` are enabled in every state for every thread id `t` (in particular
while the reader is inside a callback: re-entrant use), and a callback may also start `close()` on the
reader thread (`Label.callClose tidR`), whose step `r1` forgets all message callbacks.

The model keeps no record of the invocations.  `Ghost` (in `Lemmas/C09x.lean`) is that record, obtained
by replaying the labels next to the model (`grun`; `grun_fst`: the model component of the replay IS the
model's run, `run_grun`: every run of the model has a replay): `g.seq` numbers the snapshots, `g.line`,
`g.snap` are the line and the snapshot of the current (`g.active`) or most recent delivery, `g.invoked`
the callbacks invoked for it (a step showing `Obs.msgCb c _`), in order, `g.skipped` the ones skipped.

Not covered here: the update-level callbacks (C09 on L3), exceptions raised by a callback (not in the
model), and liveness under a scheduler (the last section is the safety half: the reader is never
disabled). -/
namespace Ynca.C09x
open Ynca.L4 Ynca.L4.D9

/-! ## 1. at most once -/

/-- **at most once**: in every reachable state the list of callbacks invoked for the current (or most
    recent) line — it is emptied by the step that takes the snapshot and extended by every invocation —
    has no duplicates. -/
theorem C09x_at_most_once (P : Params) (s : St) (g : Ghost) (h : GReachable P (s, g)) :
    g.invoked.Nodup :=
  (ginv P s g h).nodup

/-- the same, seen at the step: a callback that is being invoked has not been invoked for this line -/
theorem C09x_never_invoked_again (P : Params) (s : St) (g : Ghost) (h : GReachable P (s, g))
    (l : Label) (s' : St) (cb : Nat) (m : Msg) (hs : step P s l = some (s', some (.msgCb cb m))) :
    cb ∉ g.invoked ∧ cb ∉ g.skipped := by
  obtain ⟨ln, todo, _, h2, h3, _, _, _⟩ := msgCb_step P s s' l cb m hs
  exact (((ginv P s g h).deliv ln todo (by simp [h2, delivering])).2.2 cb h3).2

/-- callbacks skipped for the current line are not skipped twice either, and none is both invoked and
    skipped: every `rCb` turn is about a different callback of the snapshot -/
theorem C09x_turns_distinct (P : Params) (s : St) (g : Ghost) (h : GReachable P (s, g)) :
    (g.invoked ++ g.skipped).Nodup := by
  have hi := ginv P s g h
  exact List.nodup_append.2 ⟨hi.nodup, hi.skipNodup, fun a ha b hb e => hi.disjoint a ha (e ▸ hb)⟩

/-! ## 2. only callbacks of the snapshot that are registered at the moment of invocation -/

/-- **only registered**: whenever a step invokes message callback `cb` with message `m`
    (`Obs.msgCb cb m` at the boundary), that step is the reader's turn `rCb cb` of an active delivery,
    `cb` is in the snapshot taken for the line being delivered, `cb` is registered in the state in which
    it is invoked, and `m` is the parsed line. -/
theorem C09x_only_registered (P : Params) (s : St) (g : Ghost) (h : GReachable P (s, g))
    (l : Label) (s' : St) (cb : Nat) (m : Msg) (hs : step P s l = some (s', some (.msgCb cb m))) :
    l = .rCb cb ∧ g.active = true ∧ cb ∈ g.snap ∧ cb ∈ s.msgCbs ∧ m = parseLine g.line ∧
      ∃ todo, s.rpc = .deliver g.line todo ∧ cb ∈ todo := by
  obtain ⟨ln, todo, h1, h2, h3, h4, h5, _⟩ := msgCb_step P s s' l cb m hs
  obtain ⟨ha, hl, ht⟩ := (ginv P s g h).deliv ln todo (by simp [h2, delivering])
  subst hl
  exact ⟨h1, ha, (ht cb h3).1, h4, h5, todo, h2, h3⟩

/-- state form: everything recorded as invoked (or skipped) for the line comes from its snapshot -/
theorem C09x_invoked_from_snapshot (P : Params) (s : St) (g : Ghost) (h : GReachable P (s, g)) :
    (∀ c ∈ g.invoked, c ∈ g.snap) ∧ (∀ c ∈ g.skipped, c ∈ g.snap) :=
  ⟨(ginv P s g h).invSnap, (ginv P s g h).skipSnap⟩

/-- a callback of the snapshot is skipped only if it is NOT registered when its turn comes -/
theorem C09x_skipped_only_unregistered (P : Params) (s s' : St) (cb : Nat)
    (hs : step P s (.rCb cb) = some (s', none)) : cb ∉ s.msgCbs := by
  obtain ⟨_, _, _, _, h, _⟩ := skip_step P s s' cb hs
  exact h

/-! ## 3. not lost -/

/-- **not lost** (state-based side condition).  `s0` is any state in which the reader is about to take the
    snapshot for line `ln` (`s0.rpc = .line2 ln false`), the run continues with that step and then with
    ANY labels `ls` (registrations and unregistrations of other callbacks by any thread or from inside a
    callback, `close()` calls, faults, device input, further lines, …).  Side condition: `cb` is registered
    in every state of the run from which a step is taken (in `s0`, so it is in the snapshot, and up to —
    not necessarily including — the last state).  Then in the last state `cb` has been invoked for the
    line being delivered or is still in the reader's to-do list; so once the reader is no longer
    delivering (`delivering s.rpc = none`), `cb` is among the callbacks invoked for the most recent line;
    and if no further snapshot was taken (`g.seq = g0.seq + 1`) that line is `ln` with snapshot
    `s0.msgCbs`. -/
theorem C09x_not_lost (P : Params) (s0 : St) (g0 : Ghost) (ln : String) (cb : Nat) (ls : List Label)
    (s : St) (g : Ghost)
    (hpc : s0.rpc = .line2 ln false)
    (hrun : grun P (s0, g0) (.r :: ls) = some (s, g))
    (hreg : ∀ pre l post s1, .r :: ls = pre ++ l :: post → run P s0 pre = some s1 → cb ∈ s1.msgCbs) :
    (cb ∈ g.invoked ∨ cb ∈ todoL s.rpc) ∧
    (delivering s.rpc = none → cb ∈ g.invoked) ∧
    (g.seq = g0.seq + 1 → g.line = ln ∧ g.snap = s0.msgCbs ∧ cb ∈ g.snap) := by
  -- the snapshot step
  simp only [grun, gstep] at hrun
  cases hst : step P s0 .r with
  | none => simp [hst] at hrun
  | some r =>
    obtain ⟨s1, o⟩ := r
    simp only [hst] at hrun
    have hcb0 : cb ∈ s0.msgCbs := hreg [] .r ls s0 rfl rfl
    have hs1 : s1 = { s0 with rpc := .deliver ln s0.msgCbs, kaPending := false, probesAtClear := s0.probesStarted } ∧ o = none := by
      simp only [step, stepR, hpc] at hst
      simp at hst
      exact ⟨hst.1.symm, hst.2.symm⟩
    obtain ⟨hs1, ho⟩ := hs1
    have hg1 : gupd s0 .r s1 o g0 = ⟨g0.seq + 1, ln, s0.msgCbs, [], [], true⟩ := by
      subst hs1; simp [gupd, hpc]
    rw [hg1] at hrun
    have hserved1 : Served cb s1 ⟨g0.seq + 1, ln, s0.msgCbs, [], [], true⟩ := by
      subst hs1; exact .inr (by simpa [todoL, delivering] using hcb0)
    have hserved : Served cb s g :=
      grun_invariant_where P (Served cb) (fun s => cb ∈ s.msgCbs)
        (fun s g s' l o hc hi hs => served_step P cb s g s' l o hc hi hs)
        ls s1 _ s g hserved1
        (fun pre l post s2 e hr => hreg (.r :: pre) l post s2 (by rw [e]; rfl) (by simp only [run, hst]; exact hr))
        hrun
    have hsame := sameDelivery_run P ls s1 _ s g hrun
    refine ⟨hserved, fun hd => ?_, fun hq => ?_⟩
    · rcases hserved with h | h
      · exact h
      · simp [todoL, hd] at h
    · have := hsame.2 hq
      exact ⟨this.1, this.2, by rw [this.2]; exact hcb0⟩

/-- **not lost** (label-based side condition).  From a reachable state in which the reader is about to
    take the snapshot for line `ln` and `cb` is registered: if, after the snapshot step, the run contains
    no `unregister(cb)` (by any thread id, the reader's included) and no `close()` started on the reader
    thread, i.e. from inside a callback — whatever else it contains, in particular `register`/`unregister`
    of any OTHER callback by any thread or re-entrantly, `close()` on other threads, link faults and write
    faults — then `cb` stays registered and the conclusions of `C09x_not_lost` hold. -/
theorem C09x_not_lost_labels (P : Params) (s0 : St) (g0 : Ghost) (ln : String) (cb : Nat) (ls : List Label)
    (s : St) (g : Ghost)
    (h0 : Reachable P s0)
    (hpc : s0.rpc = .line2 ln false) (hcb : cb ∈ s0.msgCbs)
    (hrun : grun P (s0, g0) (.r :: ls) = some (s, g))
    (hun : ∀ t, Label.unreg t cb ∉ ls) (hcl : Label.callClose tidR ∉ ls) :
    cb ∈ s.msgCbs ∧
    (cb ∈ g.invoked ∨ cb ∈ todoL s.rpc) ∧
    (delivering s.rpc = none → cb ∈ g.invoked) ∧
    (g.seq = g0.seq + 1 → g.line = ln ∧ g.snap = s0.msgCbs ∧ cb ∈ g.snap) := by
  have hk0 : Keeps cb s0 := by
    refine ⟨hcb, ?_, noR1 P s0 h0⟩
    intro pc e
    have := (rcInv P s0 h0).idleOutside (by simp [hpc, readerInCallback])
    rw [this] at e; cases e
  have hun' : ∀ t, Label.unreg t cb ∉ (.r :: ls) := by
    intro t hm; simp at hm; exact hun t hm
  have hcl' : Label.callClose tidR ∉ (.r :: ls) := by
    intro hm; simp at hm; exact hcl hm
  have hkeep : ∀ pre post s1, .r :: ls = pre ++ post → run P s0 pre = some s1 → Keeps cb s1 := by
    intro pre post s1 e hr
    refine keeps_run P cb pre s0 s1 hk0 ?_ ?_ hr
    · intro t hm; exact hun' t (by rw [e]; exact List.mem_append_left _ hm)
    · intro hm; exact hcl' (by rw [e]; exact List.mem_append_left _ hm)
  refine ⟨(hkeep (.r :: ls) [] s (by simp) (grun_run hrun)).reg, ?_⟩
  exact C09x_not_lost P s0 g0 ln cb ls s g hpc hrun
    (fun pre l post s1 e hr => (hkeep pre (l :: post) s1 e hr).reg)

/-- **accounting**: every callback of the snapshot is invoked, skipped (found unregistered at its turn,
    `C09x_skipped_only_unregistered`) or still to do; when the line is finished each one was invoked or
    skipped, and exactly one of the two. -/
theorem C09x_accounting (P : Params) (s : St) (g : Ghost) (h : GReachable P (s, g)) :
    (∀ c ∈ g.snap, c ∈ g.invoked ∨ c ∈ g.skipped ∨ c ∈ todoL s.rpc) ∧
    (delivering s.rpc = none → ∀ c ∈ g.snap, (c ∈ g.invoked ∧ c ∉ g.skipped) ∨ (c ∈ g.skipped ∧ c ∉ g.invoked)) := by
  have hi := ginv P s g h
  refine ⟨hi.cover, fun hd c hc => ?_⟩
  rcases hi.cover c hc with h1 | h1 | h1
  · exact .inl ⟨h1, hi.disjoint c h1⟩
  · exact .inr ⟨h1, fun h2 => hi.disjoint c h2 h1⟩
  · simp [todoL, hd] at h1

/-! ## 4. (un)registration never breaks the connection -/

/-- `register` and `unregister` are enabled in every state for every thread (they never raise, never
    block), show nothing at the boundary, and change nothing but the registry: the reader's program
    counter, the port, the flags `alive`/`connected`, the queue, the sender and all pending calls are left
    as they are. -/
theorem C09x_reg_unreg_frame (P : Params) (s : St) (t : Tid) (cb : Nat) :
    (∃ m, step P s (.reg t cb) = some ({ s with msgCbs := m }, none)) ∧
    (∃ m, step P s (.unreg t cb) = some ({ s with msgCbs := m }, none)) :=
  ⟨⟨_, rfl⟩, ⟨_, rfl⟩⟩

/-- **a delivery never blocks**: in every reachable state in which the reader is inside a delivery
    (at `deliver _ _` or inside a callback, `inCb _ _ _`) a step of the reader thread is enabled:
    the finishing step when nothing is left, the turn of ANY remaining callback of the snapshot
    (registered or not), the return of the callback when no API call is pending on the reader thread,
    and otherwise the next step of that API call (a `close()` made from inside a callback never waits
    for the lock or the join).  The registry `msgCbs` plays no part in this. -/
theorem C09x_delivery_never_blocks (P : Params) (s : St) (h : Reachable P s)
    (hd : delivering s.rpc ≠ none) :
    ∃ lab, readerLabel lab = true ∧ (step P s lab).isSome = true :=
  delivery_enabled P s (rcInv P s h) hd

/-- the enabled reader step, program point by program point -/
theorem C09x_delivery_steps (P : Params) (s : St) (h : Reachable P s) :
    (∀ ln, s.rpc = .deliver ln [] → step P s .r = some ({ s with rpc := .split }, none)) ∧
    (∀ ln todo c, s.rpc = .deliver ln todo → c ∈ todo → (step P s (.rCb c)).isSome = true) ∧
    (∀ ln cb todo, s.rpc = .inCb ln cb todo → s.rcall = .idle →
        step P s .cbRet = some ({ s with rpc := .deliver ln todo }, some (.cbRet cb))) ∧
    (∀ ln cb todo, s.rpc = .inCb ln cb todo → s.rcall ≠ .idle → (step P s (.u tidR)).isSome = true) :=
  ⟨fun ln hr => deliver_nil_enabled P s ln hr,
   fun ln todo c hr hc => deliver_cons_enabled P s ln todo c hr hc,
   fun ln cb todo hr hi => inCb_idle_enabled P s ln cb todo hr hi,
   fun _ _ _ _ hi => rcall_enabled P s (rcInv P s h).path hi⟩

/-- **(un)registration does not disable the reader**: from a reachable state inside a delivery, after
    `register`/`unregister` of any callback by any thread the reader is at the same program point of the
    same delivery and again has an enabled step. -/
theorem C09x_reg_unreg_keeps_delivery_going (P : Params) (s : St) (h : Reachable P s)
    (hd : delivering s.rpc ≠ none) (t : Tid) (cb : Nat) (lab : Label)
    (hl : lab = .reg t cb ∨ lab = .unreg t cb) :
    ∃ s', step P s lab = some (s', none) ∧ s'.rpc = s.rpc ∧ s'.rcall = s.rcall ∧
      ∃ lab', readerLabel lab' = true ∧ (step P s' lab').isSome = true := by
  rcases hl with rfl | rfl
  · obtain ⟨m, hm⟩ := (C09x_reg_unreg_frame P s t cb).1
    exact ⟨_, hm, rfl, rfl, C09x_delivery_never_blocks P _ (h.step hm) hd⟩
  · obtain ⟨m, hm⟩ := (C09x_reg_unreg_frame P s t cb).2
    exact ⟨_, hm, rfl, rfl, C09x_delivery_never_blocks P _ (h.step hm) hd⟩

/-- **a delivery takes at most as many callback turns as the snapshot is long** (the registry has no
    duplicates, so neither has the snapshot; every turn is about a different callback of it) -/
theorem C09x_delivery_bounded (P : Params) (s : St) (g : Ghost) (h : GReachable P (s, g)) :
    g.invoked.length + g.skipped.length ≤ g.snap.length := by
  have hi := ginv P s g h
  have := nodup_subset_length (g.invoked ++ g.skipped) g.snap (C09x_turns_distinct P s g h) (by
    intro a ha
    rcases List.mem_append.1 ha with ha | ha
    · exact hi.invSnap a ha
    · exact hi.skipSnap a ha)
  simpa using this

/-! ## non-vacuity: concrete executions (kernel-checked) -/

def demoP : Params := ⟨100, 1000, 2000, 500, 8⟩
def demoLine : List UInt8 := "@MAIN:VOL=1\r\n".toUTF8.toList

/-- connect, a caller registers callbacks 1 and 2, a complete line arrives and the reader takes it up to
    the point where it is about to take the snapshot -/
def demoUp : List Label :=
  [.startR, .r, .r, .r, .r, .r, .publish, .reg 10 1, .reg 10 2, .dev demoLine, .r, .rGet false, .r, .r, .r]

/-- after the snapshot: caller 11 registers callback 3; the reader picks 2 first; callback 2 unregisters
    itself (thread id 0 = the reader thread: re-entrant) and returns; then callback 1; the line is finished -/
def demoRest : List Label := [.reg 11 3, .rCb 2, .unreg 0 2, .cbRet, .rCb 1, .cbRet, .r]

/-- the state (with record) in which the reader is about to take the snapshot -/
def demoS0 : St × Ghost := (grun demoP ({}, {}) demoUp).getD ({}, {})
/-- the state after the delivery -/
def demoS1 : St × Ghost := (grun demoP demoS0 (.r :: demoRest)).getD ({}, {})

theorem demoS0_run : grun demoP ({}, {}) demoUp = some demoS0 :=
  getD_of_isSome _ _ (by decide +kernel)
theorem demoS1_run : grun demoP demoS0 (.r :: demoRest) = some demoS1 :=
  getD_of_isSome _ _ (by decide +kernel)

example : (demoS0.1.rpc, demoS0.1.msgCbs, demoS0.2) = (.line2 "@MAIN:VOL=1" false, [1, 2], {}) := by
  decide +kernel

/-- the snapshot is `[1, 2]`; both are invoked exactly once (2 first), nothing is skipped, although 2
    unregistered itself and 3 was registered meanwhile; 3 is registered but not invoked for this line -/
example : (demoS1.1.rpc, demoS1.1.msgCbs, demoS1.2) =
    (.split, [1, 3], ⟨1, "@MAIN:VOL=1", [1, 2], [2, 1], [], false⟩) := by
  decide +kernel

/-- the hypotheses of `C09x_not_lost_labels` hold for callback 1 on this execution, and the theorem
    yields that 1 was invoked for the line -/
example : 1 ∈ demoS1.2.invoked ∧ demoS1.2.line = "@MAIN:VOL=1" ∧ demoS1.2.snap = [1, 2] := by
  have h := C09x_not_lost_labels demoP demoS0.1 demoS0.2 "@MAIN:VOL=1" 1 demoRest demoS1.1 demoS1.2
    (GReachable.reachable ⟨demoUp, demoS0_run⟩) (by decide +kernel) (by decide +kernel) demoS1_run
    (by intro t hm; simp [demoRest] at hm) (by simp [demoRest, tidR])
  have h1 := h.2.2.1 (by decide +kernel)
  have h2 := h.2.2.2 (by decide +kernel)
  exact ⟨h1, h2.1, by rw [h2.2.1]; decide +kernel⟩

/-- the step-level theorems apply to the invocation of callback 1 in this execution: it happens in a
    state where 2 has been invoked already and is no longer registered -/
example :
    ((grun demoP demoS0 [.r, .reg 11 3, .rCb 2, .unreg 0 2, .cbRet]).bind (fun sg =>
      (step demoP sg.1 (.rCb 1)).map (fun r => (sg.1.msgCbs, sg.2.invoked, r.2)))) =
    some ([1, 3], [2], some (.msgCb 1 (parseLine "@MAIN:VOL=1"))) := by
  decide +kernel

/-- at most once is not trivial: callback 2 unregisters itself and is registered again by a caller while
    the line is still being delivered; the reader has no second turn for it (the label is not enabled) -/
example : (grun demoP demoS0 [.r, .rCb 2, .unreg 0 2, .reg 11 2, .cbRet, .rCb 2]).isSome = false := by
  decide +kernel
example : ((grun demoP demoS0 [.r, .rCb 2, .unreg 0 2, .reg 11 2, .cbRet, .rCb 1, .cbRet, .r]).map
    (fun sg => (sg.1.msgCbs, sg.2.invoked, sg.2.skipped))) = some ([1, 2], [2, 1], []) := by
  decide +kernel

/-- the side conditions of "not lost" are needed: callback 1 unregisters callback 2 before its turn —
    2 is skipped for this line -/
example : ((grun demoP demoS0 [.r, .rCb 1, .unreg 0 2, .cbRet, .rCb 2, .r]).map
    (fun sg => (sg.1.rpc, sg.1.msgCbs, sg.2.invoked, sg.2.skipped))) = some (.split, [1], [1], [2]) := by
  decide +kernel

/-- … and callback 1 calls `close()` (on the reader thread): the registry is forgotten, 2 is skipped; the
    reader is not blocked and finishes the line -/
example : ((grun demoP demoS0 [.r, .rCb 1, .callClose 0, .u 0, .u 0, .u 0, .u 0, .u 0, .cbRet, .rCb 2, .r]).map
    (fun sg => (sg.1.rpc, sg.1.msgCbs, sg.2.invoked, sg.2.skipped))) = some (.split, [], [1], [2]) := by
  decide +kernel

/-- a link fault during the delivery does not lose the line for the registered callbacks -/
example : ((grun demoP demoS0 [.r, .fault, .rCb 1, .cbRet, .rCb 2, .cbRet, .r]).map
    (fun sg => (sg.1.rpc, sg.2.invoked))) = some (.split, [1, 2]) := by
  decide +kernel

end Ynca.C09x
