import YncaVerif.Lemmas.FramingX
import YncaVerif.Props.C02
/-! # C02 (extension) — framing is lossless, and the reported packets are THE decomposition of the
    received bytes at the terminators (so the harness oracle `bytes.split(b"\r\n")` and the model agree) -/
namespace Ynca.C02

/-- `NoCRLF l` (`splitFirst CR LF l = none`) is the plain statement "CR LF does not occur in `l`" -/
theorem NoCRLF_iff_not_infix (l : List UInt8) : NoCRLF l ↔ ¬ [CR, LF] <:+: l :=
  splitFirst_none_iff_not_infix CR LF l

/-- **lossless**: the reported lines, each with its terminator put back, followed by the bytes still
    buffered, are exactly the initial buffer followed by all bytes read — nothing is invented, lost or
    reordered, whatever the chunking. -/
theorem C02_lossless (buf : List UInt8) (hbuf : NoCRLF buf) (chunks : List (List UInt8))
    (lines : List (List UInt8)) (rest : List UInt8)
    (h : feedAll CR LF buf chunks = (lines, rest)) :
    (lines.map (· ++ [CR, LF])).flatten ++ rest = buf ++ chunks.flatten := by
  rw [C02_chunk_independent buf hbuf chunks] at h
  have := splitAll_lossless CR LF (buf ++ chunks.flatten)
  rw [h] at this
  exact this

/-- no reported line contains the terminator -/
theorem C02_lines_have_no_terminator (buf : List UInt8) (hbuf : NoCRLF buf)
    (chunks : List (List UInt8)) (lines : List (List UInt8)) (rest : List UInt8)
    (h : feedAll CR LF buf chunks = (lines, rest)) :
    ∀ l ∈ lines, NoCRLF l := by
  rw [C02_chunk_independent buf hbuf chunks] at h
  have := splitAll_lines_none CR LF (buf ++ chunks.flatten)
  rw [h] at this
  exact this

/-- the bytes still buffered contain no terminator: an incomplete trailing line is never reported,
    and a complete one never stays behind -/
theorem C02_tail_incomplete (buf : List UInt8) (hbuf : NoCRLF buf)
    (chunks : List (List UInt8)) (lines : List (List UInt8)) (rest : List UInt8)
    (h : feedAll CR LF buf chunks = (lines, rest)) :
    NoCRLF rest := by
  rw [C02_chunk_independent buf hbuf chunks] at h
  have := splitAll_rem_none CR LF (buf ++ chunks.flatten)
  rw [h] at this
  exact this

/-- **unique decomposition**.  Side conditions: every line is free of CR LF (`NoCRLF l`) and so is the
    tail.  Nothing more is needed: a line may end in CR (`l ++ [CR, LF]` then ends `CR CR LF`, and the
    leftmost terminator is still the appended one because the terminator starts with CR ≠ LF), and
    a line or the tail may start with LF for the same reason.  Under these conditions the data has only
    one decomposition, and it is the one the model reports.  (The existence half — the model reports
    `(ls, r)` for `wire ls r` — is `C02_lines_roundtrip` / `C02_lines_any_chunking`; this theorem adds
    that any two such decompositions of the same bytes coincide.) -/
theorem C02_unique_decomposition (ls ls' : List (List UInt8)) (r r' : List UInt8)
    (hl : ∀ l ∈ ls, NoCRLF l) (hr : NoCRLF r)
    (hl' : ∀ l ∈ ls', NoCRLF l) (hr' : NoCRLF r')
    (h : wire ls r = wire ls' r') : ls = ls' ∧ r = r' := by
  have h1 := C02_lines_roundtrip ls r hl hr
  have h2 := C02_lines_roundtrip ls' r' hl' hr'
  rw [h, h2] at h1
  exact ⟨(congrArg Prod.fst h1).symm, (congrArg Prod.snd h1).symm⟩

/-- the form asked for by the harness: a decomposition of `data` that meets the side conditions is what
    the model reports when `data` arrives in one read (any other chunking: `C02_lines_any_chunking`) -/
theorem C02_decomposition_is_model (data : List UInt8) (ls : List (List UInt8)) (r : List UInt8)
    (hd : (ls.map (· ++ [CR, LF])).flatten ++ r = data)
    (hl : ∀ l ∈ ls, NoCRLF l) (hr : NoCRLF r) :
    feedAll CR LF [] [data] = (ls, r) :=
  C02_lines_any_chunking ls r hl hr [data] (by simpa [wire, Ynca.wire] using hd.symm)

/-- number of non-overlapping CR LF occurrences, scanning from the left -/
def countCRLF : List UInt8 → Nat
  | [] => 0
  | [_] => 0
  | x :: y :: rest => if x = CR ∧ y = LF then countCRLF rest + 1 else countCRLF (y :: rest)

theorem countCRLF_eq (l : List UInt8) : countCRLF l = countTerm CR LF l := by
  fun_induction countCRLF l with
  | case1 => simp [countTerm]
  | case2 => simp [countTerm]
  | case3 x y rest hxy ih => simp [countTerm, hxy, ih]
  | case4 x y rest hxy ih => simp [countTerm, hxy, ih]

/-- **count**: the number of reported lines is the number of CR LF occurrences in the received bytes -/
theorem C02_count (buf : List UInt8) (hbuf : NoCRLF buf) (chunks : List (List UInt8))
    (lines : List (List UInt8)) (rest : List UInt8)
    (h : feedAll CR LF buf chunks = (lines, rest)) :
    lines.length = countCRLF (buf ++ chunks.flatten) := by
  rw [C02_chunk_independent buf hbuf chunks] at h
  have := splitAll_length CR LF (buf ++ chunks.flatten)
  rw [h] at this
  rw [countCRLF_eq]; exact this

/-! ### non-vacuity -/
-- a non-empty initial buffer ending in CR, cuts between CR and LF, an empty read, a line ending in CR,
-- a line starting with LF, an empty line, and an incomplete tail ending in CR
example : NoCRLF [64, 13] := by decide +kernel
example : feedAll CR LF [64, 13] [[10, 65, 13], [13], [], [10, 10, 66, 13, 10, 13], [10, 67, 13]] =
    ([[64], [65, 13], [10, 66], []], [67, 13]) := by decide +kernel
example : ([[64], [65, 13], [10, 66], ([] : List UInt8)].map (· ++ [CR, LF])).flatten ++ [67, 13] =
    [64, 13] ++ [[10, 65, 13], [13], [], [10, 10, 66, 13, 10, 13], [10, 67, 13]].flatten := by
  decide +kernel
example : ∀ l ∈ [[64], [65, 13], [10, 66], ([] : List UInt8)], NoCRLF l := by decide +kernel
example : NoCRLF [67, 13] := by decide +kernel
example : countCRLF ([64, 13] ++ [[10, 65, 13], [13], [], [10, 10, 66, 13, 10, 13], [10, 67, 13]].flatten) = 4 := by
  decide +kernel
-- the side condition of the uniqueness theorem is needed: with a CR LF inside a "line" the same
-- bytes have two decompositions
example : wire [[64, 13, 10, 65]] [] = wire [[64], [65]] [] := by decide +kernel
example : ¬ NoCRLF [64, 13, 10, 65] := by decide +kernel
end Ynca.C02
