import YncaVerif.Lemmas.Dialogue2
/-! # C06 at the granularity of the callback fan-out — over the L5m model (several subunit objects)

`C06_barrier` (Props/C06b.lean) is proved over `Ynca.L5`, where the reader processes a received line in one
atomic step.  In the source the reader hands a received line to the callbacks of all subunit objects on the
connection one after the other, and each object's callback sets that object's own event on a `SYS:VERSION`
line as long as the object is not `_initialized`.  `Ynca.L5m` (Model/Dialogue2.lean) has exactly this
granularity.  There

* with TWO objects the full-strength statement "`initialize()` returns only after its own sync reply was
  processed" is FALSE: the `SYS:VERSION` line that ends A's `initialize()` is delivered to B's callback after
  the caller has already begun B's `initialize()` — B returns normally before any of its commands is written
  (known finding);
* with ONE object the barrier holds as in `C06_barrier`. -/
namespace Ynca.C06c
open Ynca.L5 (versionQuery isVersionLine Answer AnswerOk)
open Ynca.L5m

/-- a device that answers the sync query with one `SYS:VERSION` line and everything else with one ordinary line -/
def demoAnswer : Answer := fun q =>
  if q == versionQuery then ["@SYS:VERSION=1.0"] else ["@UNDEFINED"]

/-- two objects A (0) and B (1), constructed, not initialised -/
def init2 : S := init 2

/-- the failing schedule: A.initialize() with one query; both commands written and answered; the first answer
    delivered to A and to B; the `SYS:VERSION` line delivered to A — A.initialize() returns; the caller begins
    B.initialize() (event cleared, two commands queued); the reader goes on delivering THE SAME line to B —
    B.initialize() returns -/
def failingSchedule : List Label :=
  [.begin 0 ["@MAIN:PWR=?"], .write, .write, .consume, .consume, .deliver, .deliver, .deliver, .wake 0,
   .begin 1 ["@ZONE2:PWR=?"], .deliver, .wake 1]

/-- **the multi-object negation witness**: a run of the two-object model after which B's `initialize()` has
    returned normally (`ok`) although its slice of commands is non-empty and NOT EVEN THE FIRST of them has
    been written to the wire -/
theorem C06_multiobject_negation_witness :
    ∃ ls s, run demoAnswer init2 ls = some s ∧
      ∃ b, s.objs[1]? = some b ∧ b.stage = .ok ∧ 0 < b.count ∧ s.written.length ≤ b.first := by
  refine ⟨failingSchedule, (run demoAnswer init2 failingSchedule).get (by decide +kernel), by simp, ?_⟩
  exact ⟨{ event := true, stage := .ok, first := 2, count := 2 },
    by decide +kernel, rfl, by decide, by decide +kernel⟩

/-- the device assumption holds for the device of the witness -/
theorem demoAnswer_ok : AnswerOk demoAnswer := by
  constructor
  · intro q hq l hl
    have : l = "@UNDEFINED" := by simpa [demoAnswer, hq] using hl
    subst this; decide +kernel
  · exact ⟨"@SYS:VERSION=1.0", by simp [demoAnswer], by decide +kernel⟩

/-- **barrier, ONE object** (full strength, as `C06_barrier`): in every reachable state of the one-object model,
    under the device assumption `AnswerOk`, when the object's `initialize()` has returned normally, then its
    slice `first ..< first+count` is non-empty and is the tail of everything enqueued; nothing is pending, all of
    it is written and consumed; the reader is between two lines; every answer emitted so far has been delivered;
    the last command of the slice is the sync query, and its reply — a `SYS:VERSION` line — has been delivered -/
theorem C06_single_object_barrier (answer : Answer) (ha : AnswerOk answer) (s : S) (h : Reachable answer 1 s)
    (o : Obj) (ho : s.objs[0]? = some o) (hok : o.stage = .ok) :
    0 < o.count ∧ o.first + o.count = s.enqueued ∧
    s.pending = [] ∧ s.written.length = o.first + o.count ∧ s.consumed = o.first + o.count ∧
    s.deliverIdx = 0 ∧ (∀ e ∈ s.ansEnd, e ≤ s.processed) ∧
    s.written[o.first + o.count - 1]? = some versionQuery ∧
    ∃ e l, s.ansEnd[o.first + o.count - 1]? = some e ∧ 1 ≤ e ∧ e ≤ s.processed ∧
      s.emitted[e - 1]? = some l ∧ isVersionLine l = true :=
  barrier1 answer ha s h o ho hok

/-- the same at the moment the waiting caller is woken -/
theorem C06_single_object_barrier_waiting (answer : Answer) (ha : AnswerOk answer) (s : S)
    (h : Reachable answer 1 s) (o : Obj) (ho : s.objs[0]? = some o) (first count : Nat)
    (hw : o.stage = .waiting first count) (he : o.event = true) :
    first + count ≤ s.consumed ∧ ∀ i, i < first + count → ∃ e, s.ansEnd[i]? = some e ∧ e ≤ s.processed :=
  barrier1_waiting answer ha s h o ho first count hw he

/-- the one-object model keeps its one object -/
theorem C06_single_object_preserved (answer : Answer) (s : S) (h : Reachable answer 1 s) : s.objs.length = 1 :=
  objs_length answer 1 s h

/-- the two-object witness violates exactly the conclusion of the one-object barrier: for B, `written.length`
    is `first`, not `first + count` -/
example : ∃ s, Reachable demoAnswer 2 s ∧ ∃ b, s.objs[1]? = some b ∧ b.stage = .ok ∧
    s.written.length ≠ b.first + b.count :=
  ⟨(run demoAnswer init2 failingSchedule).get (by decide +kernel), ⟨failingSchedule, by simp [init2]⟩,
    { event := true, stage := .ok, first := 2, count := 2 }, by decide +kernel, rfl, by decide +kernel⟩

/-! non-vacuity: the one-object model reaches `ok` (twice in a row), with the device of the witness -/
example : ((run demoAnswer (init 1) [.begin 0 ["@MAIN:VOL=?", "@MAIN:PWR=?"], .write, .write, .write, .consume,
    .consume, .deliver, .consume, .deliver, .deliver, .wake 0]).map
      (fun s => (s.objs.map (·.stage), s.processed, s.written.length, s.vl))) = some ([.ok], 3, 3, 1) := by
  decide +kernel

def twiceSchedule : List Label :=
  [.begin 0 ["@MAIN:PWR=?"], .write, .write, .consume, .deliver, .consume, .deliver, .wake 0,
   .begin 0 [], .write, .consume, .deliver, .wake 0]

example : ∃ s o, Reachable demoAnswer 1 s ∧ s.objs[0]? = some o ∧ o.stage = .ok ∧ o.first = 2 ∧ o.count = 1 :=
  ⟨(run demoAnswer (init 1) twiceSchedule).get (by decide +kernel),
    { event := true, stage := .ok, first := 2, count := 1 }, ⟨twiceSchedule, by simp⟩, by decide +kernel, rfl, rfl, rfl⟩

/-- the two-object model, same device, the schedule in which the reader finishes the fan-out before the
    caller goes on: B's `initialize()` then waits for its own reply -/
example : ((run demoAnswer init2 [.begin 0 [], .write, .consume, .deliver, .wake 0, .deliver,
    .begin 1 ["@ZONE2:PWR=?"], .write, .write, .consume, .consume, .deliver, .deliver, .deliver, .deliver,
    .wake 1]).map (fun s => (s.objs.map (·.stage), s.processed, s.written.length))) = some ([.ok, .ok], 3, 3) := by
  decide +kernel

end Ynca.C06c
