import YncaVerif.Lemmas.C06
import YncaVerif.Gen.Functions
/-! # C06 — subunit initialisation asks each query once (query-list part)

`initQueries c` is the deduplicating loop of `SubunitBase.initialize` over the function handlers;
`initSends c` the GETs it transmits.  The barrier / time-out part of C06 lives in the timed
dialogue model (Props/C06b.lean). -/
namespace Ynca.C06

/-- the query a function is initialised through: its group (`init=`) or its own name -/
def queryOf (f : Fn) : String := f.init.getD f.name

/-- **each distinct initial query exactly once** -/
theorem C06_queries_nodup (c : Cls) : (initQueries c).Nodup := initQueries_nodup c

/-- **complete**: the query of every initialisable function is requested -/
theorem C06_queries_complete (c : Cls) (f : Fn) (hf : f ∈ c.fns) (h : f.noInit = false) :
    queryOf f ∈ initQueries c := initQueries_complete c f hf h

/-- **nothing else**: every requested query is the query of some initialisable function; in particular a
    function excluded from initialisation is never queried under its own name unless that name is
    another function's group -/
theorem C06_queries_sound (c : Cls) (q : String) (hq : q ∈ initQueries c) :
    ∃ f ∈ c.fns, f.noInit = false ∧ queryOf f = q := initQueries_sound c q hq

/-- order: queries appear in the order of the first function that needs them -/
theorem C06_queries_order (c : Cls) :
    initQueries c = ((c.fns.filter (fun f => !f.noInit)).map queryOf).eraseDups := initQueries_eq_eraseDups c

/-- **sync query last and once**: the transmitted GETs are the queries addressed to this subunit
    followed by exactly one `SYS:VERSION` -/
theorem C06_sends (c : Cls) :
    initSends c = (initQueries c).map (fun q => Sent.get c.id q) ++ [Sent.get "SYS" "VERSION"] := rfl

/-- on the regenerated tables no class queries VERSION itself (SYS excludes it from initialisation), so
    the sync query occurs exactly once -/
def versionOnlyAsSync (cs : List Cls) : Bool :=
  cs.all (fun c => !((initSends c).dropLast.contains (Sent.get "SYS" "VERSION")))

theorem C06_version_once : versionOnlyAsSync Gen.classes = true := by decide +kernel

/-! ### non-vacuity -/
example : initQueries Gen.cls_Tun = ["AMFREQ", "AVAIL", "BAND", "FMFREQ", "PRESET", "RDSINFO"] := by decide +kernel
end Ynca.C06
