import YncaVerif.Lemmas.C20
/-! # C20 — the communication log is a faithful, bounded record of the wire -/
namespace Ynca.C20
open Ynca.L4

/-- **ring = suffix**: after any sequence of `add`s a ring of capacity `n` (`collections.deque(maxlen=n)`)
    holds the last `min n k` items in order -/
theorem C20_ring_is_suffix {α : Type} (n : Nat) (xs : List α) :
    xs.foldl (ringAdd n) [] = xs.drop (xs.length - n) :=
  ring_is_suffix n xs

/-- **bounded**, and empty for `n = 0` -/
theorem C20_bounded {α : Type} (n : Nat) (xs : List α) : (xs.foldl (ringAdd n) []).length ≤ n := by
  rw [ring_is_suffix]; simp; omega

theorem C20_zero_is_empty {α : Type} (xs : List α) : xs.foldl (ringAdd 0) [] = [] := by
  rw [ring_is_suffix]; simp

/-- **sends are faithful**: the `Send` entries of the (unbounded) log are exactly the lines written, in
    transmission order, plus at most one entry that is logged but not yet (or, on a write error, never) written -/
theorem C20_sends_faithful (P : Params) (s : St) (h : Reachable P s) :
    ∃ extra, logSends s = wireTexts s ++ extra ∧ extra.length ≤ 1 :=
  sends_faithful P s h

/-- **receives are faithful**: the `Received` entries are exactly the complete lines taken from the stream, in
    arrival order (the newest line may not be logged yet) -/
theorem C20_receives_faithful (P : Params) (s : St) (h : Reachable P s) :
    ∃ extra, s.rxLines = logRecvs s ++ extra ∧ extra.length ≤ 1 :=
  receives_faithful P s h

/-- keep-alive probes are logged like every other transmission: a `Send` entry is appended for every item the
    sender is about to write, before the write -/
theorem C20_logged_before_write (P : Params) (s s' : St) (t : String) (hr : Reachable P s)
    (h : step P s .s = some (s', some (.write t))) : t ∈ logSends s :=
  write_was_logged P s s' t hr h

end Ynca.C20
