import YncaVerif.Lemmas.C08
/-! # C08 — consecutive transmissions are at least 100 ms apart
Over the L4 model: every execution (any number of caller threads, any burst pattern, probes included,
any device behaviour, faults and close() at any time). -/
namespace Ynca.C08
open Ynca.L4

/-- **spacing**: in every reachable state the write times are pairwise at least `P.spacing` apart, in order -/
theorem C08_spacing (P : Params) (s : St) (h : Reachable P s) : Spaced P.spacing (wireTimes s) :=
  spacing_inv P s h

/-- with the protocol's requirement as an explicit hypothesis on the parameter -/
theorem C08_spacing_100ms (P : Params) (hP : 100000 ≤ P.spacing) (s : St) (h : Reachable P s) :
    Spaced 100000 (wireTimes s) :=
  spaced_mono 100000 P.spacing hP (wireTimes s) (spacing_inv P s h)

/-- only the sender thread ever writes -/
theorem C08_only_sender_writes (P : Params) (s s' : St) (l : Label) (t : String)
    (h : step P s l = some (s', some (.write t))) : l = .s :=
  write_only_by_sender P s s' l t h

/-- write times never lie in the future and only grow -/
theorem C08_times_monotone (P : Params) (s : St) (h : Reachable P s) :
    ∀ t ∈ wireTimes s, t ≤ s.now :=
  wire_times_le_now P s h

/-! non-vacuity: an execution in which two probes are written exactly 100 ms apart -/
def demoLabels : List Label :=
  [.startR, .r, .r, .r, .r, .r,            -- connection_made, two probes queued, event set
   .s, .s, .s, .s, .s, .s,                 -- dequeue, flag, log, lock, write, unlock
   .r, .tick 100000,                       -- reader blocks in read; 100 ms pass
   .s, .s, .s, .s, .s, .s]                 -- wake up, dequeue the second probe ... write

example : ∃ s, run ⟨100000, 30000000, 2000000, 1000000, 0⟩ {} demoLabels = some s ∧ wireTimes s = [0, 100000] := by
  decide +kernel
end Ynca.C08
