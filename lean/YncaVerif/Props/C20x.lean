import YncaVerif.Lemmas.C20x
import YncaVerif.Props.C20
/-! # C20 (extension) — "no reply listed before the command that caused it"

A device can answer a command only after the command has been written to the port.  So the clause follows
from an ordering fact about the library alone, with the device left completely free:

  *if the last byte of a complete line was made available by the device (`Label.dev`) after a line had been
  written to the port, then in the unbounded log the `Send` entry of that written line precedes the
  `Received` entry of the complete line.*

The L4 model keeps `St.wire` (lines written), `St.log` (the unbounded log; the ring is its suffix,
`C20_ring_is_suffix`) and `St.rxLines` as ghost history, but not the moment at which a byte was fed.  That
moment is added as a ghost computed from the label history, outside the model (`Lemmas/C20x.lean`):

* `grun P s g ls` runs the model exactly like `run` and updates a `Ghost` next to it (`C20x_ghost_is_run`);
* `Ghost.fed` lists every byte fed by a `dev` label, oldest first, each stamped with `s.wire.length` of the
  state in which the `dev` step was taken (the number of lines written so far);
* `Ghost.raw` lists the complete lines (without CR LF) the reader's `split` step took out of its buffer, and
  `Ghost.stamps` the stamp of the last byte of each.

`C20x_stream_framing` shows that this ghost says what it is meant to say: the fed stream is exactly the lines
taken out, each followed by CR LF, followed by what is still in the reader's buffer and in the port's input
queue; `rxLines` are the decoded `raw` lines; and `stamps[j]` is the stamp carried by the byte at offset
`lineEnd raw j`, the LF that ends line `j`. -/
namespace Ynca.C20
open Ynca.L4

/-- the ghost run is the model run: same enabledness, same states -/
theorem C20x_ghost_is_run (P : Params) (s : St) (g : Ghost) (ls : List Label) :
    (grun P s g ls).map (·.1) = run P s ls :=
  grun_run P ls s g

/-- … so every execution of the model has its ghost -/
theorem C20x_ghost_exists (P : Params) (s : St) (ls : List Label) (h : run P {} ls = some s) :
    ∃ g, grun P {} {} ls = some (s, g) := by
  have := grun_run P ls {} {}
  rw [h] at this
  cases hg : grun P {} {} ls with
  | none => rw [hg] at this; cases this
  | some r =>
    rw [hg] at this
    obtain ⟨s', g⟩ := r
    simp only [Option.map_some, Option.some.injEq] at this
    subst this
    exact ⟨g, rfl⟩

/-- **the ghost is a faithful account of the byte stream**: along every execution
    * the bytes fed by the device are the lines taken out so far, each with its CR LF, followed by the reader's
      buffer and the port's input queue (nothing is lost, reordered or invented);
    * the lines the model reports in `rxLines` are the decodings of the ghost's raw lines;
    * there is one stamp per line;
    * the stamp of line `j` is the one carried by the fed byte at offset `lineEnd raw j`, and that byte is the
      LF that completes the line. -/
theorem C20x_stream_framing (P : Params) (ls : List Label) (s : St) (g : Ghost)
    (h : grun P {} {} ls = some (s, g)) :
    g.fed.map (·.1) = wireG CR LF g.raw (s.buffer ++ s.inbox) ∧
    s.rxLines = g.raw.map decodeLine ∧
    g.stamps.length = g.raw.length ∧
    ∀ j k, g.stamps[j]? = some k → g.fed[lineEnd g.raw j]? = some (LF, k) := by
  have hi := (ghost_invariants P ls s g h).1
  exact ⟨hi.bytes, hi.lines, hi.slen, hi.ends⟩

/-- the wire is append-only: the lines written by the time of an intermediate state `s1` are an initial
    segment of the wire of every later state -/
theorem C20x_wire_grows (P : Params) (ls : List Label) (s1 s : St) (h : run P s1 ls = some s) :
    wireTexts s1 <+: wireTexts s := by
  obtain ⟨ext, he⟩ := wire_grows P ls s1 s h
  exact ⟨ext.map (·.2.1), by simp [wireTexts, he]⟩

/-- the fed stream is append-only: offsets at or beyond `g1.fed.length` are bytes fed after `s1` -/
theorem C20x_fed_grows (P : Params) (ls : List Label) (s1 s : St) (g1 g : Ghost) (hr : Reachable P s1)
    (h : grun P s1 g1 ls = some (s, g)) : g1.fed <+: g.fed := by
  refine grun_invariant P (fun _ g => g1.fed <+: g.fed) ?_ ls s1 s g1 g hr (List.prefix_refl _) h
  intro s g s' l o _ hi _
  cases l <;> simp only [gstep] <;> try exact hi
  · exact hi.trans (List.prefix_append _ _)
  · split
    · split
      · exact hi
      · exact hi
    · exact hi

/-- **every `Received` entry comes after the `Send` entries of everything written before its last byte was
    fed.**  Take any execution and any `Received r` entry of the final (unbounded) log, `pre` being the entries
    before it; it is the `j`-th `Received` entry, `j = (recvsOf pre).length`.  Then
    * `r` is the decoding of the `j`-th line `p` taken out of the byte stream;
    * that line has a stamp `k`: its last byte, the LF at offset `lineEnd g.raw j` of the fed stream, was fed
      when `k` lines had been written;
    * those `k` lines are on the wire (`k ≤ s.wire.length`), and their texts, in transmission order, are an
      initial segment of the `Send` entries listed before the `Received` entry. -/
theorem C20x_received_after_stamped_sends (P : Params) (ls : List Label) (s : St) (g : Ghost)
    (h : grun P {} {} ls = some (s, g))
    (pre post : List LogEntry) (r : String) (hlog : s.log = pre ++ .received r :: post) :
    ∃ p k, g.raw[(recvsOf pre).length]? = some p ∧ decodeLine p = r ∧
      g.stamps[(recvsOf pre).length]? = some k ∧
      g.fed[lineEnd g.raw (recvsOf pre).length]? = some (LF, k) ∧
      k ≤ s.wire.length ∧ (wireTexts s).take k <+: sendsOf pre :=
  received_after_stamped_sends P ls s g h pre post r hlog

/-- **no reply is listed before the command that caused it.**  Split any execution at an intermediate state
    `s1` (ghost `g1`) and let it run on to `s` (ghost `g`).  Take a `Received r` entry of the final log, `pre`
    being the entries before it, whose line was completed after `s1`: the offset of its last byte in the fed
    stream is at or beyond `g1.fed.length`, i.e. that byte was fed by a `dev` label of `ls2`.  Then every line
    that was on the wire at `s1` — every command and probe written before that byte was fed — has its `Send`
    entry before the `Received` entry: the texts written by `s1`, in transmission order, are an initial
    segment of the `Send` entries of `pre`. -/
theorem C20x_no_reply_before_command (P : Params) (ls1 ls2 : List Label) (s1 s : St) (g1 g : Ghost)
    (h1 : grun P {} {} ls1 = some (s1, g1)) (h2 : grun P s1 g1 ls2 = some (s, g))
    (pre post : List LogEntry) (r : String) (hlog : s.log = pre ++ .received r :: post)
    (hlate : g1.fed.length ≤ lineEnd g.raw (recvsOf pre).length) :
    wireTexts s1 <+: sendsOf pre := by
  have hr1 : Reachable P s1 := grun_reachable P ls1 {} s1 {} g1 ⟨[], rfl⟩ h1
  have h : grun P {} {} (ls1 ++ ls2) = some (s, g) := by rw [grun_append, h1]; exact h2
  obtain ⟨p, k, _, _, _, hfed, _, hpre⟩ := received_after_stamped_sends P _ s g h pre post r hlog
  obtain ⟨⟨ext, hext⟩, hl⟩ := late_stamps P ls2 s1 s g1 g hr1 h2
  have hk : s1.wire.length ≤ k := hl _ _ hlate hfed
  refine List.IsPrefix.trans ?_ hpre
  have : wireTexts s = wireTexts s1 ++ ext.map (·.2.1) := by simp [wireTexts, hext]
  rw [this, List.take_append]
  have hlen : (wireTexts s1).length = s1.wire.length := by simp [wireTexts]
  rw [List.take_of_length_le (by omega)]
  exact List.prefix_append _ _

/-- the same, entry by entry: every line written by `s1` has a `Send` entry among the entries listed before
    the `Received` entry, at the same position among the `Send` entries as on the wire -/
theorem C20x_command_listed_first (P : Params) (ls1 ls2 : List Label) (s1 s : St) (g1 g : Ghost)
    (h1 : grun P {} {} ls1 = some (s1, g1)) (h2 : grun P s1 g1 ls2 = some (s, g))
    (pre post : List LogEntry) (r : String) (hlog : s.log = pre ++ .received r :: post)
    (hlate : g1.fed.length ≤ lineEnd g.raw (recvsOf pre).length) :
    ∀ (i : Nat) (c : String), (wireTexts s1)[i]? = some c → (sendsOf pre)[i]? = some c ∧ LogEntry.send c ∈ pre := by
  intro i c hc
  obtain ⟨rest, hrest⟩ := C20x_no_reply_before_command P ls1 ls2 s1 s g1 g h1 h2 pre post r hlog hlate
  have hi : (sendsOf pre)[i]? = some c := by
    rw [← hrest]; exact getElem?_append_of_some (wireTexts s1) rest i c hc
  refine ⟨hi, ?_⟩
  have hm := List.mem_of_getElem? hi
  simp only [sendsOf, List.mem_filterMap] at hm
  obtain ⟨e, he, hec⟩ := hm
  cases e with
  | send t => simp at hec; subst hec; exact he
  | received t => simp at hec

/-! ### the hypotheses can be met, and the timing hypothesis is needed -/
def demoP : Params := ⟨100, 1000, 2000, 500, 8⟩
def demoReply : List UInt8 := "@MAIN:VOL=1\r\n".toUTF8.toList

/-- connect (the reader ends up blocked in `read`), publish, caller 10 submits `@MAIN:VOL=1` and returns -/
def demoUp : List Label :=
  [.startR, .r, .r, .r, .r, .r, .r, .publish, .call 10 "@MAIN:VOL=1", .u 10, .u 10]
/-- the sender takes one start-up probe through get / flag / log / lock / write / unlock / sleep / wake -/
def demoProbe : List Label := [.s, .s, .s, .s, .s, .s, .tick 100, .s]
/-- the sender takes the command out of the queue and classifies it … -/
def demoTake : List Label := [.s, .s]
/-- … appends its `Send` entry, takes the lock and writes it -/
def demoWrite : List Label := [.s, .s, .s]
/-- the device feeds a complete line; the reader (blocked in a 1-byte `read`) gets the first byte, finds no
    complete line, reads the rest, takes the line out of its buffer and logs it -/
def demoRecv : List Label := [.dev demoReply, .rGet false, .r, .r, .rGet false, .r, .r]

/-- the state `s1` just after the command has been written: three lines on the wire, nothing fed yet -/
example : (grun demoP {} {} (demoUp ++ demoProbe ++ demoProbe ++ demoTake ++ demoWrite)).map
      (fun x => (wireTexts x.1, x.2.fed.length)) =
    some ([probe, probe, "@MAIN:VOL=1"], 0) := by decide +kernel

/-- the reply is fed after that: the log lists the three `Send` entries, then the `Received` entry; the line
    has stamp 3 and its last byte sits at offset 12 ≥ 0 of the fed stream -/
example : (grun demoP {} {} (demoUp ++ demoProbe ++ demoProbe ++ demoTake ++ demoWrite ++ demoRecv)).map
      (fun x => (x.1.log, x.2.stamps, lineEnd x.2.raw 0, x.2.fed[12]?)) =
    some ([.send probe, .send probe, .send "@MAIN:VOL=1", .received "@MAIN:VOL=1"], [3], 12, some (LF, 3)) := by
  decide +kernel

/-- without the timing hypothesis the order is not guaranteed (and need not be: such a line cannot be a reply
    to the command): a line fed while the sender is about to log the command is listed before it, with
    stamp 2 -/
example : (grun demoP {} {} (demoUp ++ demoProbe ++ demoProbe ++ demoTake ++ demoRecv ++ demoWrite)).map
      (fun x => (x.1.log, x.2.stamps)) =
    some ([.send probe, .send probe, .received "@MAIN:VOL=1", .send "@MAIN:VOL=1"], [2]) := by
  decide +kernel

end Ynca.C20
