import YncaVerif.Model.Conn
/-! # C16 — (statements over the L4 model; under construction) -/
namespace Ynca.C16
open Ynca.L4
theorem C16_model_initial_state : run ⟨100000, 30000000, 2000000, 1000000, 0⟩ {} [] = some {} := rfl
end Ynca.C16
