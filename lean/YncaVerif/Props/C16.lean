import YncaVerif.Lemmas.C16
/-! # C16 — close() is safe at any time, from any thread, any number of times (L4 model) -/
namespace Ynca.C16
open Ynca.L4

/-- **never raises**: no step of any close() (on a caller thread or on the reader thread) raises -/
theorem C16_never_raises (P : Params) (s s' : St) (l : Label) (o : Obs) (t : Tid)
    (h : step P s l = some (s', some o)) : o ≠ .closeRaised t :=
  close_never_raises P s s' l o t h

/-- **accepted in every state by every thread that may call the API** -/
theorem C16_always_accepted (P : Params) (s : St) (t : Tid) (h : mayCall s t = true) :
    (step P s (.callClose t)).isSome = true :=
  close_accepted P s t h

/-- once some close() that found the connection published (`_protocol` assigned) has begun, the disconnect
    callback is cleared for good.  (`closeStarted` is set by the clearing step `c0`; a close() entered while
    `connect()` has not completed skips that step, sets `closeUnpub` instead and is covered by Props/C17x.) -/
theorem C16_callback_cleared (P : Params) (s : St) (h : Reachable P s) (hc : s.closeStarted = true) :
    s.discCbSet = false :=
  close_clears_callback P s h hc

/-- **no disconnect callback** is ever started while it is cleared -/
theorem C16_no_disc_cb (P : Params) (s s' : St) (l : Label) (o : Obs) (hc : s.discCbSet = false)
    (h : step P s l = some (s', some o)) : o ≠ .discCb :=
  no_disc_when_cleared P s s' l o hc h

/-- **after it has returned** the transport is closed and the reader has been told to stop -/
theorem C16_after_return (P : Params) (s : St) (h : Reachable P s) (hr : s.closeReturned = true) :
    s.portOpen = false ∧ s.alive = false :=
  after_close_return P s h hr

/-- **nothing more is written**: with the port closed no write is accepted by the transport -/
theorem C16_no_write_when_closed (P : Params) (s s' : St) (l : Label) (o : Obs) (t : String)
    (hp : s.portOpen = false) (h : step P s l = some (s', some o)) : o ≠ .write t :=
  no_write_when_closed P s s' l o t hp h

/-- the port never reopens -/
theorem C16_port_stays_closed (P : Params) (s s' : St) (l : Label) (o : Option Obs)
    (hp : s.portOpen = false) (h : step P s l = some (s', o)) : s'.portOpen = false :=
  port_stays_closed P s s' l o hp h

/-- close() on the reader thread forgets every message callback before it returns, so no message callback
    is started afterwards -/
theorem C16_reader_close_stops_delivery (P : Params) (s s' : St) (l : Label) (cb : Nat) (m : Msg)
    (hc : s.msgCbs = []) (h : step P s l = some (s', some (.msgCb cb m))) : False :=
  no_msgcb_without_callbacks P s s' l cb m hc h

end Ynca.C16
