import YncaVerif.Lemmas.Enum
import YncaVerif.Gen.Enums
import YncaVerif.Gen.Functions
import YncaVerif.Gen.Recordings
/-! # C04 — typed decoding is total and round-trips with the wire text

Generic theorems hold for every enumeration table satisfying the decidable predicate `enumOk`;
`C04_tables_ok` discharges that predicate on the tables regenerated from `ynca/enums.py` by complete
kernel evaluation (a finite table, not a sample).  The recordings part is likewise a complete
evaluation over every distinct recorded `(recording, subunit, function, value)`. -/
namespace Ynca.C04

/-- **total**: decoding any string never raises and yields a member of the table whose wire text is
    that string, or else UNKNOWN -/
theorem C04_total (t : EnumTbl) (h : enumOk t = true) (s : String) :
    (∃ n, decodeEnum t s = .ok (.member t.name n) ∧ (n, s) ∈ t.members) ∨
    (decodeEnum t s = .ok (.member t.name "UNKNOWN") ∧ ∀ m ∈ t.members, m.2 ≠ s) := by
  simp only [enumOk, Bool.and_eq_true] at h
  obtain ⟨⟨⟨hmiss, _⟩, _⟩, _⟩ := h
  unfold decodeEnum
  cases hf : t.members.find? (·.2 == s) with
  | some p =>
    left
    obtain ⟨n, txt⟩ := p
    have hmem := List.mem_of_find?_eq_some hf
    have htxt : txt = s := by simpa using List.find?_some hf
    subst htxt
    exact ⟨n, rfl, hmem⟩
  | none =>
    right
    refine ⟨by simp [hmiss], ?_⟩
    intro m hm heq
    have := List.find?_eq_none.mp hf m hm
    simp [heq] at this

/-- **round trip**: encoding any member (UNKNOWN included) and decoding the text gives the same member -/
theorem C04_roundtrip (t : EnumTbl) (h : enumOk t = true) (n txt : String) (hm : (n, txt) ∈ t.members) :
    memberText t n = some txt ∧ decodeEnum t txt = .ok (.member t.name n) := by
  simp only [enumOk, Bool.and_eq_true] at h
  obtain ⟨⟨⟨_, _⟩, hnd2⟩, hnd1⟩ := h
  have h2 := find_text_of_mem ((nodupB_iff _).mp hnd2) hm
  have h1 := find_name_of_mem ((nodupB_iff _).mp hnd1) hm
  exact ⟨by simp [memberText, h1], by simp [decodeEnum, h2]⟩

/-- **injective**: distinct members have distinct wire texts -/
theorem C04_injective (t : EnumTbl) (h : enumOk t = true) (n₁ n₂ txt : String)
    (h₁ : (n₁, txt) ∈ t.members) (h₂ : (n₂, txt) ∈ t.members) : n₁ = n₂ := by
  have a := (C04_roundtrip t h n₁ txt h₁).2
  have b := (C04_roundtrip t h n₂ txt h₂).2
  rw [a] at b
  injection b with b; injection b

/-- **text functions pass values through unchanged** -/
theorem C04_str_passthrough (tbls : List EnumTbl) (a b : Option Nat) (s : String) :
    decode tbls (.str a b) s = .ok (.str s) := rfl

/-! ### the regenerated tables -/

/-- every enumeration of `ynca/enums.py` is well formed -/
theorem C04_tables_ok : Gen.enums.all enumOk = true := by decide +kernel

/-- enumeration names referenced by a converter -/
def enumsOfConv : Conv → List String
  | .enum e => [e]
  | .multi cs => go cs
  | _ => []
where go : List Conv → List String
  | [] => []
  | c :: cs => enumsOfConv c ++ go cs

/-- every enumeration used by any function of any subunit class is one of the well-formed tables -/
def usedEnumsOk (cs : List Cls) (tbls : List EnumTbl) : Bool :=
  cs.all (fun c => c.fns.all (fun f => (enumsOfConv f.conv).all (fun e =>
    match findEnum tbls e with
    | some t => t.name == e && enumOk t
    | none => false)))

theorem C04_used_enums_ok : usedEnumsOk Gen.classes Gen.enums = true := by decide +kernel

/-- no converter or `to_str` callable was left unrecognised by the translator -/
def noOpaque : Conv → Bool
  | .opaque _ => false
  | .int (.opaque _) => false
  | .intOrNone (.opaque _) => false
  | .float (.opaque _) => false
  | .multi cs => go cs
  | _ => true
where go : List Conv → Bool
  | [] => true
  | c :: cs => noOpaque c && go cs

theorem C04_no_opaque_converter : Gen.classes.all (fun c => c.fns.all (fun f => noOpaque f.conv)) = true := by
  decide +kernel

/-! ### the recordings -/

def fnOf (cs : List Cls) (subunit fn : String) : Option Fn :=
  match cs.find? (·.id == subunit) with
  | some c => c.fns.find? (·.name == fn)
  | none => none

/-- a recorded value of an enumerated function decodes to a proper member that re-encodes to the same text -/
def recEnumOk (cs : List Cls) (tbls : List EnumTbl) (r : String × String × String × String) : Bool :=
  match fnOf cs r.2.1 r.2.2.1 with
  | some f => match decode tbls f.conv r.2.2.2 with
      | .ok (.member e m) => m != "UNKNOWN" && encode tbls f.conv (.member e m) == .sent r.2.2.2
      | _ => false
  | none => false

theorem C04_recordings_enum : Gen.recEnum.all (recEnumOk Gen.classes Gen.enums) = true := by decide +kernel

/-- a recorded numeric literal of a numeric function decodes to exactly the number the literal denotes -/
def recNumOk (cs : List Cls) (tbls : List EnumTbl) (r : String × String × String × String) : Bool :=
  match fnOf cs r.2.1 r.2.2.1, parseDecimal r.2.2.2.toList with
  | some f, some (m, fr) => (match decode tbls f.conv r.2.2.2 with
      | .ok (.dec m' fr') => m' == m && fr' == fr
      | .ok (.int n) => fr == 0 && n == m
      | _ => false)
  | _, _ => false

theorem C04_recordings_numeric : Gen.recNum.all (recNumOk Gen.classes Gen.enums) = true := by decide +kernel

/-! ### non-vacuity -/
example : enumOk Gen.enum_Mute = true := by decide +kernel
example : decodeEnum Gen.enum_Mute "Att -20 dB" = .ok (.member "Mute" "ATT_MINUS_20") := by decide +kernel
example : decodeEnum Gen.enum_Mute "att -20 db" = .ok (.member "Mute" "UNKNOWN") := by decide +kernel
example : Gen.recEnum.length > 100 ∧ Gen.recNum.length > 50 := by decide +kernel

end Ynca.C04
