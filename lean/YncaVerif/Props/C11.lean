import YncaVerif.Lemmas.Stepped
import YncaVerif.Model.Conv
import YncaVerif.Gen.Functions
import YncaVerif.Gen.Enums
/-! # C11 — stepped numbers are written on the step grid with fixed decimals

Numbers are exact rationals `vn/vd` (every Python `int` and finite `float` is one), a step is
`sn/sd`, `d` is the number of decimals.  All statements are in cross-multiplied integer form:
the written text denotes `mant / 10^d`, the grid point is `k · sn/sd`.

The theorems hold for *every* rational (no magnitude bound is needed), which covers the
property's "every finite number of magnitude up to 10^4". -/
namespace Ynca.C11

/-- The statement's table: function ↦ (step numerator, step denominator, decimals).
    Part of the *property*, not generated. -/
def spec : List (String × Nat × Nat × Nat) :=
  [("VOL", 1, 2, 1), ("ZONEBVOL", 1, 2, 1), ("HPBASS", 1, 2, 1), ("HPTREBLE", 1, 2, 1),
   ("SPBASS", 1, 2, 1), ("SPTREBLE", 1, 2, 1), ("INITVOLLVL", 1, 2, 1),
   ("MAXVOL", 5, 1, 1), ("FMFREQ", 1, 5, 2), ("AMFREQ", 10, 1, 0)]

/-- a grid is representable with `d` decimals -/
def GridOk (sn sd d : Nat) : Prop := 0 < sn ∧ 0 < sd ∧ sd ∣ sn * 10 ^ d

instance (sn sd d : Nat) : Decidable (GridOk sn sd d) := by unfold GridOk; infer_instance

/-- every grid of the statement's table is representable -/
theorem spec_grids_ok : ∀ e ∈ spec, GridOk e.2.1 e.2.2.1 e.2.2.2 := by decide

/-- shape of the text: optional minus, non-empty digits, and for `d > 0` a point and exactly `d` digits -/
def WellFormed (d : Nat) (txt : List Char) : Prop :=
  ∃ sign ip fp, txt = sign ++ ip ++ (if d = 0 then [] else '.' :: fp) ∧
    (sign = [] ∨ sign = ['-']) ∧ ip ≠ [] ∧ allDigits ip = true ∧
    (d = 0 → fp = []) ∧ (0 < d → fp.length = d ∧ allDigits fp = true)

/-- **format**: the text is a plain decimal literal with exactly `d` decimals -/
theorem C11_format (vn : Int) (vd sn sd d : Nat) :
    WellFormed d (numberToString vn vd d sn sd) := by
  unfold numberToString formatSteps
  generalize stepsOf vn vd sn sd = k
  generalize hm : scaledAbs k sn sd d = m
  refine ⟨if k < 0 ∧ 0 < m then ['-'] else [], Nat.toDigits 10 (m / 10 ^ d),
    if d = 0 then [] else padDigits d (m % 10 ^ d), ?_, ?_, Nat.toDigits_ne_nil, allDigits_toDigits _, ?_, ?_⟩
  · by_cases hd : d = 0 <;> simp [hd]
  · split <;> simp
  · intro hd; simp [hd]
  · intro hd
    have hd' : d ≠ 0 := by omega
    simp only [hd', if_false]
    exact ⟨length_padDigits d _ hd (Nat.mod_lt _ (Nat.pow_pos (by omega))), allDigits_padDigits _ _⟩

/-- the signed mantissa the text denotes: `mant / 10^d` -/
def mantOf (k : Int) (sn sd d : Nat) : Int :=
  if k < 0 then -(scaledAbs k sn sd d : Int) else (scaledAbs k sn sd d : Int)

theorem parseUnsigned_digits (m d : Nat) :
    parseUnsigned (Nat.toDigits 10 (m / 10 ^ d) ++ (if d = 0 then [] else '.' :: padDigits d (m % 10 ^ d)))
      = some (m, d) := by
  have hip := allDigits_toDigits (m / 10 ^ d)
  have hne : Nat.toDigits 10 (m / 10 ^ d) ≠ [] := Nat.toDigits_ne_nil
  have hpow : 0 < 10 ^ d := Nat.pow_pos (by omega)
  unfold parseUnsigned
  by_cases hd : d = 0
  · subst hd
    have ⟨h1, h2⟩ := takeWhile_digits_only _ hip
    simp only [if_true, List.append_nil, h1, h2, digitsVal, hne, ne_eq, not_false_eq_true, hip, and_self,
      dval_toDigits]
    simp
  · have hd0 : 0 < d := by omega
    have ⟨h1, h2⟩ := takeWhile_digits_dot _ (padDigits d (m % 10 ^ d)) hip
    have hlen := length_padDigits d (m % 10 ^ d) hd0 (Nat.mod_lt _ hpow)
    have hfpne : padDigits d (m % 10 ^ d) ≠ [] := by
      intro h; rw [h] at hlen; simp at hlen; omega
    simp only [hd, if_false, h1, h2, hne, hfpne, digitsVal, ne_eq, not_false_eq_true, hip,
      allDigits_padDigits, and_self, if_true, dval_toDigits, dval_padDigits, hlen, false_and]
    have := Nat.div_add_mod' m (10 ^ d)
    simp [this]

theorem parseDecimal_nosign (c : Char) (cs : List Char) (h1 : c ≠ '-') (h2 : c ≠ '+') :
    parseDecimal (c :: cs) = (parseUnsigned (c :: cs)).map (fun p => ((p.1 : Int), p.2)) := by
  unfold parseDecimal
  split
  · rename_i heq; simp at heq; exact absurd heq.1 h1
  · rename_i heq; simp at heq; exact absurd heq.1 h2
  · rfl

/-- **decode back**: reading the written text as a decimal literal gives exactly the mantissa
    `mantOf` with `d` fraction digits -/
theorem parse_formatSteps (k : Int) (sn sd d : Nat) :
    parseDecimal (formatSteps k sn sd d) = some (mantOf k sn sd d, d) := by
  unfold formatSteps mantOf
  generalize scaledAbs k sn sd d = m
  have hu := parseUnsigned_digits m d
  have hip := allDigits_toDigits (m / 10 ^ d)
  have hne : Nat.toDigits 10 (m / 10 ^ d) ≠ [] := Nat.toDigits_ne_nil
  by_cases hneg : k < 0 ∧ 0 < m
  · simp only [hneg, and_self, if_true, List.cons_append, List.nil_append, List.append_assoc]
    simp [parseDecimal, hu]
  · simp only [hneg, if_false, List.nil_append]
    cases hbody : Nat.toDigits 10 (m / 10 ^ d) with
    | nil => exact absurd hbody hne
    | cons c cs =>
      have hc : c.isDigit = true := by
        rw [hbody] at hip
        simp only [allDigits, List.all_cons, Bool.and_eq_true] at hip; exact hip.1
      have hc1 : c ≠ '-' := by intro h; subst h; revert hc; decide
      have hc2 : c ≠ '+' := by intro h; subst h; revert hc; decide
      rw [hbody] at hu
      rw [List.cons_append, parseDecimal_nosign c _ hc1 hc2, ← List.cons_append, hu]
      by_cases hk : k < 0
      · have : m = 0 := by
          have := hneg; simp [hk] at this; exact this
        simp [hk, this]
      · simp [hk]

/-- **on grid**: the written number `mant/10^d` is exactly `k · sn/sd` -/
theorem C11_on_grid (k : Int) (sn sd d : Nat) (hg : GridOk sn sd d) :
    mantOf k sn sd d * sd = k * sn * 10 ^ d := by
  obtain ⟨_, hsd, hdvd⟩ := hg
  have hdiv : sd ∣ k.natAbs * sn * 10 ^ d := by
    rw [Nat.mul_assoc]; exact Nat.dvd_mul_left_of_dvd hdvd _
  have hx : scaledAbs k sn sd d * sd = k.natAbs * sn * 10 ^ d := Nat.div_mul_cancel hdiv
  have hxi : ((scaledAbs k sn sd d : Nat) : Int) * (sd : Int) = (k.natAbs : Int) * sn * 10 ^ d := by
    exact_mod_cast hx
  unfold mantOf
  split
  · rename_i hk
    have : (k.natAbs : Int) = -k := by omega
    rw [Int.neg_mul, hxi, this]; simp [Int.neg_mul]
  · rename_i hk
    have : (k.natAbs : Int) = k := by omega
    rw [hxi, this]

/-- **nearest**: the chosen number of steps `k` is within half a step of `v`, and no other grid
    point is nearer (`|v − k·step| ≤ |v − j·step|`, cross-multiplied by `vd·sd`) -/
theorem C11_nearest (vn : Int) (vd sn sd : Nat) (hvd : 0 < vd) (hsn : 0 < sn) :
    let k := stepsOf vn vd sn sd
    2 * (vn * sd - k * ((vd * sn : Nat) : Int)).natAbs ≤ vd * sn ∧
    ∀ j : Int, (vn * sd - k * ((vd * sn : Nat) : Int)).natAbs ≤ (vn * sd - j * ((vd * sn : Nat) : Int)).natAbs := by
  have hq : 0 < vd * sn := Nat.mul_pos hvd hsn
  exact ⟨roundHalfEven_near _ _ hq, roundHalfEven_nearest _ _ hq⟩

/-- **no negative zero**: the text starts with a minus sign exactly when the written number is negative -/
theorem C11_sign (k : Int) (sn sd d : Nat) :
    (formatSteps k sn sd d).head? = some '-' ↔ mantOf k sn sd d < 0 := by
  unfold formatSteps mantOf
  generalize scaledAbs k sn sd d = m
  have hip := allDigits_toDigits (m / 10 ^ d)
  have hne : Nat.toDigits 10 (m / 10 ^ d) ≠ [] := Nat.toDigits_ne_nil
  by_cases hneg : k < 0 ∧ 0 < m
  · simp [hneg]
  · have : ¬ ((if k < 0 then -(m : Int) else (m : Int)) < 0) := by
      by_cases hk : k < 0
      · have : m = 0 := by have := hneg; simp [hk] at this; exact this
        simp [hk, this]
      · simp [hk]
    simp only [hneg, if_false, List.nil_append, this, iff_false]
    cases hbody : Nat.toDigits 10 (m / 10 ^ d) with
    | nil => exact absurd hbody hne
    | cons c cs =>
      have hc : c.isDigit = true := by
        rw [hbody] at hip
        simp only [allDigits, List.all_cons, Bool.and_eq_true] at hip; exact hip.1
      simp only [List.cons_append, List.head?_cons, Option.some.injEq]
      intro h; subst h; revert hc; decide

/-- **C11** for one assignment: for every rational `vn/vd` and every grid of the statement's table,
    the transmitted text is well formed with `d` decimals, decodes (as a decimal literal) to a
    number that is exactly `k` steps, `k` being a nearest grid index, and carries a minus sign
    only if that number is negative. -/
theorem C11_main (vn : Int) (vd : Nat) (hvd : 0 < vd) (e : String × Nat × Nat × Nat) (he : e ∈ spec) :
    let sn := e.2.1; let sd := e.2.2.1; let d := e.2.2.2
    let txt := numberToString vn vd d sn sd
    let k := stepsOf vn vd sn sd
    WellFormed d txt ∧
    (∃ mant : Int, parseDecimal txt = some (mant, d) ∧ mant * sd = k * sn * 10 ^ d ∧
        (txt.head? = some '-' ↔ mant < 0)) ∧
    2 * (vn * sd - k * ((vd * sn : Nat) : Int)).natAbs ≤ vd * sn ∧
    (∀ j : Int, (vn * sd - k * ((vd * sn : Nat) : Int)).natAbs ≤ (vn * sd - j * ((vd * sn : Nat) : Int)).natAbs) := by
  have hg := spec_grids_ok e he
  intro sn sd d txt k
  refine ⟨C11_format vn vd sn sd d, ⟨mantOf k sn sd d, parse_formatSteps k sn sd d, C11_on_grid k sn sd d hg,
    C11_sign k sn sd d⟩, ?_⟩
  exact C11_nearest vn vd sn sd hvd hg.1

/-! ### the documented exception and the wiring of the generated tables -/

/-- the MAXVOL converter of the statement: 16.5 is sent as `16.5`, everything else on the 5 dB grid -/
def maxvolConv : Conv := .multi [.float .only165, .float (.stepped 1 5 1)]

/-- **MAXVOL exception**: 16.5 (= 33/2) is transmitted as `16.5` -/
theorem C11_maxvol_exception : encode Gen.enums maxvolConv (.float 33 2) = .sent "16.5" := by decide +kernel

/-- …and every other finite float goes through the 5 dB grid formatter -/
theorem C11_maxvol_otherwise (vn : Int) (vd : Nat) (hvd : 0 < vd) (h : vn * 2 ≠ 33 * (vd : Int)) :
    encode Gen.enums maxvolConv (.float vn vd) = .sent (String.ofList (numberToString vn vd 1 5 1)) := by
  have : vd ≠ 0 := by omega
  simp [maxvolConv, encode, encode.encodeMulti, numGuard, applyToStr, h, this]

/-- first stepped formatter inside a converter -/
def steppedOf : Conv → Option (Nat × Nat × Nat)
  | .int (.stepped d sn sd) => some (sn, sd, d)
  | .intOrNone (.stepped d sn sd) => some (sn, sd, d)
  | .float (.stepped d sn sd) => some (sn, sd, d)
  | .multi cs => go cs
  | _ => none
where go : List Conv → Option (Nat × Nat × Nat)
  | [] => none
  | c :: cs => match steppedOf c with
    | some g => some g
    | none => go cs

def specOf (name : String) : Option (Nat × Nat × Nat) := (spec.find? (·.1 == name)).map (·.2)

/-- the generated function tables agree with the statement's table: every writable function
    carries exactly the stepped formatter the statement lists for its name (or none) -/
def wiringOk (cs : List Cls) : Bool :=
  cs.all (fun c => c.fns.all (fun f => !f.put || steppedOf f.conv == specOf f.name))

/-- every function of the statement's table exists (writable) in some class -/
def specCovered (cs : List Cls) : Bool :=
  spec.all (fun e => cs.any (fun c => c.fns.any (fun f => f.name == e.1 && f.put)))

/-- **wiring** (complete check of the regenerated table, not a sample) -/
theorem C11_wiring : wiringOk Gen.classes = true ∧ specCovered Gen.classes = true := by
  constructor <;> decide +kernel

/-- MAXVOL is wired with the exception in front -/
def maxvolWired (cs : List Cls) : Bool :=
  cs.all (fun c => c.fns.all (fun f => f.name != "MAXVOL" ||
    (match f.conv with
     | .multi [.float .only165, .float (.stepped 1 5 1)] => true
     | _ => false)))

theorem C11_maxvol_wiring : maxvolWired Gen.classes = true := by decide +kernel

/-! ### non-vacuity -/
example : numberToString 86 10 2 1 5 = "8.60".toList := by decide +kernel
example : numberToString (-1) 4 1 1 2 = "0.0".toList := by decide +kernel
example : numberToString (-805) 10 1 1 2 = "-80.5".toList := by decide +kernel
example : numberToString 1234 1 0 10 1 = "1230".toList := by decide +kernel
example : ("FMFREQ", 1, 5, 2) ∈ spec := by decide

end Ynca.C11
