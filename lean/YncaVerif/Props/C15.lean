import YncaVerif.Lemmas.C15
/-! # C15 — an unexpected disconnect is reported exactly once and ends all activity (L4 model) -/
namespace Ynca.C15
open Ynca.L4

/-- **at most once** in every execution -/
theorem C15_at_most_once (P : Params) (s : St) (h : Reachable P s) : s.discCalls ≤ 1 :=
  disc_at_most_once P s h

/-- **exactly once** when the reader has finished `connection_lost` and no close() cleared the callback -/
theorem C15_exactly_once (P : Params) (s : St) (h : Reachable P s) (hd : s.rpc = .done) (hc : s.closeStarted = false) :
    s.discCalls = 1 :=
  disc_exactly_once P s h hd hc

/-- **not connected** from the first step of `connection_lost` on -/
theorem C15_not_connected (P : Params) (s : St) (h : Reachable P s)
    (hl : lossBegun s.rpc = true) (h0 : s.rpc ≠ .lost 0) : s.connected = false ∧ s.alive = false :=
  lost_not_connected P s h hl h0

/-- **no delivery afterwards**: once `connection_lost` has begun no message callback is ever started -/
theorem C15_no_delivery_after (P : Params) (s s' : St) (l : Label) (cb : Nat) (m : Msg)
    (hl : lossBegun s.rpc = true) (h : step P s l = some (s', some (.msgCb cb m))) : False :=
  no_msgcb_after_loss P s s' l cb m hl h

/-- `connection_lost` is irreversible -/
theorem C15_loss_is_final (P : Params) (s s' : St) (l : Label) (o : Option Obs)
    (hl : lossBegun s.rpc = true) (h : step P s l = some (s', o)) : lossBegun s'.rpc = true :=
  loss_final P s s' l o hl h

/-- **queued commands are discarded**: when the reader has posted the exit marker, the queue holds nothing
    that was queued before the loss began except what the sender grabbed itself (the queue was drained to
    empty before the marker was posted) -/
theorem C15_drained (P : Params) (s s' : St) (o : Option Obs) (h2 : s.rpc = .lost 1) (hq : s.queue = [])
    (h : step P s .r = some (s', o)) : s'.rpc = .lost 2 ∧ s'.queue = [] :=
  drain_done P s s' o h2 hq h

end Ynca.C15
