import YncaVerif.Props.C12
import YncaVerif.Lemmas.C15x
/-! # C12 (extension) — the bound of `C12_gap` is attained (it cannot be improved), time cannot pass beyond it,
and what the library does at that moment is send the probe on its own.  These are also the non-vacuity
witnesses of `Props/C12.lean`: a reachable state that is `Up`, after both start-up probes. -/
namespace Ynca.C12
open Ynca.L4 Ynca.L4.C12L

def demoP : Params := ⟨100, 1000, 2000, 500, 8⟩
/-- connect: the reader runs `connection_made` and blocks in `read`; the protocol is published -/
def demoUp : List Label := [.startR, .r, .r, .r, .r, .r, .r, .publish]
/-- the sender takes one start-up probe: get / flag / log / lock / write / unlock / sleep / wake -/
def demoProbe : List Label := [.s, .s, .s, .s, .s, .s, .tick 100, .s]
/-- nothing is submitted for a whole keep-alive interval: only the reader's read time-outs happen -/
def demoIdle : List Label := [.tick 300, .rGet true, .r, .tick 500, .rGet true, .r, .tick 200]
def demoRun : List Label := demoUp ++ demoProbe ++ demoProbe ++ demoIdle

instance (s : St) : Decidable (Up s) := by unfold Up; infer_instance

/-- the two start-up probes went out at 0 and 100; at time 1200 = 100 + spacing + kaInterval nothing else has
    been sent, the connection is up and the sender's `queue.get` is at its deadline -/
example : (run demoP {} demoRun).map (fun s => (s.now, lastTx s, s.spc, s.wire.map (·.2.1), decide (Up s))) =
    some (1200, 100, .waitGet 1200, [probe, probe], true) := by decide +kernel

/-- **the bound of `C12_gap` is attained**: there is an execution in which the connection is up and exactly
    one command spacing plus one keep-alive interval have passed since the last transmission -/
theorem C12_bound_tight : ∃ s, Reachable demoP s ∧ Up s ∧ s.now = lastTx s + demoP.spacing + demoP.kaInterval := by
  have h : ((run demoP {} demoRun).map (fun s => decide (Up s ∧ s.now = lastTx s + demoP.spacing + demoP.kaInterval))) = some true := by
    decide +kernel
  cases hr : run demoP {} demoRun with
  | none => rw [hr] at h; simp at h
  | some s =>
    rw [hr] at h
    simp only [Option.map_some, Option.some.injEq, decide_eq_true_eq] at h
    exact ⟨s, ⟨_, hr⟩, h.1, h.2⟩

/-- **time cannot pass beyond it** (urgency): in that state not even a microsecond may elapse before the sender
    moves … -/
example : run demoP {} (demoRun ++ [.tick 1]) = none := by decide +kernel

/-- … and what the sender does is send `@SYS:MODELNAME=?` on its own (no command id): third line on the wire,
    at time 1200 -/
example : (run demoP {} (demoRun ++ [.s, .s, .s, .s, .s, .s, .s])).map (fun s => (s.wire, decide (Up s))) =
    some ([(0, probe, none), (100, probe, none), (1200, probe, none)], true) := by decide +kernel

/-- the gap bound holds along every continuation of an execution, not just at its end: whatever the labels
    `ls` that follow a reachable state, the bound holds in the state they lead to if the connection is still up -/
theorem C12_gap_along (P : Params) (s s' : St) (ls : List Label) (h : Reachable P s) (hr : run P s ls = some s')
    (hup : Up s') : s'.now ≤ lastTx s' + P.spacing + P.kaInterval :=
  C12_gap P s' (Reachable.run h hr) hup

end Ynca.C12
