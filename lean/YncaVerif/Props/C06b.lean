import YncaVerif.Lemmas.Dialogue
/-! # C06 (barrier and bound), C07 (stage barriers) — over the L5 dialogue model

`D` is the message-level state of an initialisation dialogue: commands enqueued / written in order (C01),
a sequential-responder device, lines processed by the reader in order (C02).  A *stage* is one
`initialize()` of a subunit (or the detection stage of `YncaApi.initialize`): its queries followed by the
`SYS:VERSION` synchronisation query.  Stages follow each other only after the previous one completed
(`begin` needs stage `idle`/`ok`), as in `YncaApi._initialize_available_subunits`. -/
namespace Ynca.C06b
open Ynca.L5

/-- **one version outstanding**: whenever no stage is waiting, every `SYS:VERSION` query enqueued so far has had
    its reply processed — so the line that ends the next stage can only be the reply to that stage's own query -/
theorem C07_one_version_outstanding (answer : Answer) (ha : AnswerOk answer) (s : D) (h : Reachable answer s)
    (hs : s.stage = .idle ∨ s.stage = .ok) : s.vl = s.vq :=
  version_balance answer ha s h hs

/-- **barrier**: when a stage has completed normally, the device has consumed every command of the stage
    (its queries and the sync query) and the reader has processed every line the device emitted in answer
    to them — hence every value the device sent before the sync reply is in the cache (C03) -/
theorem C06_barrier (answer : Answer) (ha : AnswerOk answer) (s : D) (h : Reachable answer s) (hok : s.stage = .ok) :
    s.consumed = s.enqueued ∧ s.written.length = s.enqueued ∧ s.pending = [] ∧
    ∀ e ∈ s.ansEnd, e ≤ s.processed :=
  barrier answer ha s h hok

/-- the same at the moment the waiting caller is woken: for the commands `first ..< first+count` of the stage -/
theorem C07_barrier_all_stages (answer : Answer) (ha : AnswerOk answer) (s : D) (h : Reachable answer s)
    (first count dl : Nat) (hw : s.stage = .waiting first count dl) (he : s.event = true) :
    first + count ≤ s.consumed ∧ ∀ i, i < first + count → ∃ e, s.ansEnd[i]? = some e ∧ e ≤ s.processed :=
  barrier_waiting answer ha s h first count dl hw he

/-- **bounded**: a waiting stage never outlives its deadline (`2 s + 0.5 s` per command in the source); at the
    deadline, if the sync reply has not been processed, the only possible continuation is the failure -/
theorem C06_bounded (answer : Answer) (s : D) (h : Reachable answer s) (first count dl : Nat)
    (hw : s.stage = .waiting first count dl) : s.now ≤ dl :=
  waiting_bounded answer s h first count dl hw

theorem C06_timeout_enabled (answer : Answer) (s : D) (first count dl : Nat)
    (hw : s.stage = .waiting first count dl) (he : s.event = false) (hd : dl ≤ s.now) :
    (step answer s .timeout).isSome = true ∧ ∀ d, step answer s (.tick d) = none := by
  constructor
  · simp [step, hw, he, hd]
  · intro d; simp only [step, hw, he]; simp; omega

/-- a failed stage is final: no further stage begins (the API closes everything instead) -/
theorem C06_failed_is_final (answer : Answer) (s s' : D) (l : Label) (hf : s.stage = .failed)
    (h : step answer s l = some s') : s'.stage = .failed :=
  failed_final answer s s' l hf h

/-! non-vacuity: a device that answers, one stage with two queries completes -/
def demoAnswer : Answer := fun q =>
  if q == versionQuery then ["@SYS:VERSION=1.0"] else if q == "@MAIN:VOL=?" then ["@MAIN:VOL=-30.0"] else ["@UNDEFINED"]

example : ((run demoAnswer {} [.begin ["@MAIN:VOL=?", "@MAIN:PWR=?"] 3500000, .write, .write, .write, .consume, .consume,
    .process, .consume, .process, .process, .wake]).map (fun s => (s.stage, s.processed, s.vl))) = some (.ok, 3, 1) := by
  decide +kernel

end Ynca.C06b
