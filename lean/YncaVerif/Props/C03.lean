import YncaVerif.Lemmas.Subunit
import YncaVerif.Gen.Enums
import YncaVerif.Gen.Functions
/-! # C03 — an attribute always reads the decoding of the last value the device reported

History = any list of messages as the connection hands them to message callbacks (all subunits,
modelled or not, error replies interleaved).  `ex` is Python's behaviour on exotic numeric syntax
(an arbitrary parameter).  Statements are for every class table satisfying the decidable
well-formedness `clsOk` (distinct attribute names, distinct protocol names), discharged on the
regenerated tables by `C03_tables_ok`. -/
namespace Ynca.C03

/-- what message `m` reports for function `f` of class `c`: a decoded value, or nothing
    (error status, other subunit, other function, missing or undecodable value) -/
abbrev reports := @Ynca.reports

/-- the most recent report for `f` in history `h` (oldest first) -/
abbrev lastReported := @Ynca.lastReported

/-- **C03**: after any history, reading attribute `f` returns the decoding of the most recent value
    reported for exactly that subunit and function, or `None` if there is none -/
theorem C03_read_is_last (tbls : List EnumTbl) (ex : Exotic) (c : Cls) (hc : clsOk c = true)
    (f : Fn) (hf : f ∈ c.fns) (hget : f.get = true) (h : List Msg) :
    readAttr (h.foldl (recv tbls ex) (SubSt.new c)) f.attr = .value (lastReported tbls ex c f h) :=
  read_is_last tbls ex c hc f hf hget h

/-- **no crosstalk**: a message with an error status, for another subunit, for a function the class
    does not model, or without a value leaves the whole cache unchanged -/
theorem C03_no_crosstalk (tbls : List EnumTbl) (ex : Exotic) (st : SubSt) (m : Msg)
    (h : m.status ≠ .ok ∨ m.subunit ≠ some st.cls.id ∨ m.value = none ∨
         (∀ f, m.fn = some f → findFn st.cls f = none)) :
    (recv tbls ex st m).cache = st.cache :=
  recv_frame tbls ex st m h

/-- **reads and device messages transmit nothing** (`readAttr` is a pure function of the state; the
    message handler never appends to `sent`) -/
theorem C03_nothing_sent (tbls : List EnumTbl) (ex : Exotic) (st : SubSt) (h : List Msg) :
    (h.foldl (recv tbls ex) st).sent = st.sent :=
  foldl_recv_sent tbls ex st h

/-- every regenerated class table is well formed -/
theorem C03_tables_ok : Gen.classes.all clsOk = true := by decide +kernel

/-! ### non-vacuity -/
example : ∃ c ∈ Gen.classes, ∃ f ∈ c.fns, f.get = true ∧ f.name = "VOL" := by decide +kernel
end Ynca.C03
