import YncaVerif.Lemmas.C10
import YncaVerif.Gen.Enums
import YncaVerif.Gen.Functions
/-! # C10 — nothing the device sends can take the connection down (typed-value part)

In the models every function of a received line is total (`splitAll`, `parseLine`, `recv` are total
Lean functions; a value that cannot be decoded is an explicit `none` of `decodeFull`, never an
exception).  What remains to state is what happens to the cache.  The reader-thread part (no
transition to the lost state on any line) is in the L4 model. -/
namespace Ynca.C10

/-- Python's behaviour on exotic numeric syntax is type-correct: it yields a number of the converter's kind -/
abbrev ExoticOk := @Ynca.ExoticOk

/-- **undecodable value**: the affected attribute keeps its previous value, every other attribute too, no
    update callback fires, nothing is transmitted and the object keeps processing (it is not closed) -/
theorem C10_undecodable_keeps_previous (tbls : List EnumTbl) (ex : Exotic) (st : SubSt) (m : Msg)
    (f : String) (v : String) (fn : Fn) (hm : m.fn = some f) (hv : m.value = some v)
    (hfn : findFn st.cls f = some fn) (hdec : decodeFull tbls ex fn.conv v = none) :
    (recv tbls ex st m).cache = st.cache ∧ (recv tbls ex st m).calls = st.calls ∧
    (recv tbls ex st m).sent = st.sent ∧ (recv tbls ex st m).closed = st.closed :=
  recv_undecodable tbls ex st m f v fn hm hv hfn hdec

/-- every cached value has the type of its function -/
abbrev CacheTyped := @Ynca.CacheTyped

/-- **type safety**: after ANY history of messages every cached value has the type of its function
    (so an attribute reads a value of its type or `None`, never a value of the wrong type) -/
theorem C10_type_safe (tbls : List EnumTbl) (hE : tbls.all enumNamesOk = true) (ex : Exotic)
    (hex : ExoticOk tbls ex) (c : Cls) (h : List Msg) :
    CacheTyped tbls (h.foldl (recv tbls ex) (SubSt.new c)) :=
  foldl_recv_typed tbls hE ex hex c h

/-- the regenerated enumeration tables satisfy the side condition (`findEnum` by name finds a table of that name) -/
theorem C10_enum_names_ok : Gen.enums.all enumNamesOk = true := by decide +kernel

/-- decoding is type-correct for every converter (the lemma behind type safety) -/
theorem C10_decode_typed (tbls : List EnumTbl) (hE : tbls.all enumNamesOk = true) (c : Conv) (s : String) (v : Val)
    (h : decode tbls c s = .ok v) : valMatches tbls c v = true :=
  decode_typed tbls hE c s v h

/-! ### non-vacuity: the RX-V500D's `Auto Down` -/
example : decode Gen.enums (.float (.stepped 2 1 5)) "Auto Down" = .raises := by decide +kernel
example : decodeFull Gen.enums (fun _ _ => none) (.float (.stepped 2 1 5)) "Auto Down" = none := by decide +kernel
end Ynca.C10
