import YncaVerif.Lemmas.AcceptProj
import YncaVerif.Lemmas.AcceptC16
import YncaVerif.Lemmas.AcceptC12
import YncaVerif.Lemmas.AcceptC20
/-! # The tie itself, as theorems

The B2 correspondence offers every observable trace of the real library to the compiled acceptor
(`Model/Accept.lean`).  These theorems say what an `ACCEPT` verdict means: the trace is explained by an
execution of the L4 model (inputs, visible outputs and their times exactly as observed), hence every theorem
about reachable states of the model applies to what was observed on the implementation.  Two of them are
carried through to statements about the observed events alone. -/
namespace Ynca.Tie
open Ynca.L4

/-- **soundness of the acceptor**: an accepted trace is explained by a model execution -/
theorem Tie_accept_sound (P : Params) (hidden : List String) (evs : List (Nat × Ev))
    (h : (accept P hidden evs).accepted = true) : ∃ s, Expl P hidden evs s :=
  accept_sound P hidden evs h

/-- the explaining execution ends in a reachable state of the model, so every L4 invariant holds there -/
theorem Tie_explained_is_reachable (P : Params) (hidden : List String) (evs : List (Nat × Ev)) (s : St)
    (h : Expl P hidden evs s) : Reachable P s :=
  h.reachable

/-- the acceptor's erasure of ghost history is a bisimulation: states with the same visible part take the same steps -/
theorem Tie_erasure_is_bisimulation (P : Params) (a b b' : St) (l : Label) (o : Option Obs) (h : strip P a = strip P b)
    (hs : step P b l = some (b', o)) : ∃ a', step P a l = some (a', o) ∧ strip P a' = strip P b' :=
  strip_congr h hs

/-- **C08 on the observed trace**: in every trace the acceptor accepts (with writes visible) the observed
    `write` events are at least `P.spacing` apart -/
theorem Tie_C08_observed_spacing (P : Params) (hidden : List String) (evs : List (Nat × Ev))
    (hv : hidden.contains "write" = false) (h : (accept P hidden evs).accepted = true) :
    Spaced P.spacing ((traceWrites evs).map (·.1)) := by
  obtain ⟨s, he⟩ := accept_sound P hidden evs h
  have := spacing_inv P s he.reachable
  rw [he.writes hv]
  have e : (wireTT s).map (·.1) = wireTimes s := by simp [wireTimes, wireTT, Function.comp_def]
  rw [e]; exact this

/-- **C15 on the observed trace**: in every accepted trace (disconnect callbacks visible) the disconnect callback is
    invoked at most once -/
theorem Tie_C15_observed_at_most_once (P : Params) (hidden : List String) (evs : List (Nat × Ev))
    (hv : hidden.contains "disc" = false) (h : (accept P hidden evs).accepted = true) :
    traceDiscs evs ≤ 1 := by
  obtain ⟨s, he⟩ := accept_sound P hidden evs h
  rw [he.discs hv]
  exact disc_at_most_once P s he.reachable

/-- **C01 on the observed trace** (text unchanged, nothing invented): in every accepted trace (writes visible) every written line
    is the keep-alive probe or the unchanged text of a command some caller handed to put / get / raw earlier in the trace -/
theorem Tie_C01_observed_texts (P : Params) (hidden : List String) (evs : List (Nat × Ev))
    (hv : hidden.contains "write" = false) (h : (accept P hidden evs).accepted = true) :
    ∀ w ∈ traceWrites evs, w.2 = probe ∨ w.2 ∈ traceCalls evs := by
  obtain ⟨s, he⟩ := accept_sound P hidden evs h
  intro w hw
  rw [he.writes hv] at hw
  simp only [wireTT, List.mem_map] at hw
  obtain ⟨e, hew, rfl⟩ := hw
  cases hid : e.2.2 with
  | none => exact Or.inl (wire_non_user_is_probe P s he.reachable e hew hid)
  | some i =>
    right
    have hmem : (i, e.2.1) ∈ wireCmds s.wire := by
      simp only [wireCmds, List.mem_filterMap]
      exact ⟨e, hew, by simp [hid]⟩
    have hsub := fifo_sublist P s he.reachable
    have : (i, e.2.1) ∈ submittedCmds s :=
      hsub.subset (List.mem_append_left _ (List.mem_append_left _ hmem))
    simp only [submittedCmds, List.mem_map] at this
    obtain ⟨e', he', heq⟩ := this
    have := he.submInv.1 e' he'
    simp only [Prod.mk.injEq] at heq
    rw [← heq.2]; exact this

/-- **C16 on the observed trace** (nothing more is written): in every accepted trace (writes and call returns visible), once a
    `close()` that was begun after the reader thread had been started has returned — `(scan pre).closed`, a plain scan of the events
    before — no write is observed any more -/
theorem Tie_C16_observed_no_write_after_close (P : Params) (hidden : List String) (evs : List (Nat × Ev))
    (hw : hidden.contains "write" = false) (hr : hidden.contains "ret" = false) (h : (accept P hidden evs).accepted = true)
    (pre rest : List (Nat × Ev)) (tm : Nat) (x : String) (he : evs = pre ++ (tm, Ev.output (.write x)) :: rest) :
    (scan pre).closed = false := by
  obtain ⟨s, hs⟩ := accept_sound P hidden evs h
  have he' : evs = (pre ++ [(tm, Ev.output (.write x))]) ++ rest := by rw [he]; simp
  obtain ⟨s1, hs1⟩ := hs.prefix _ _ he'
  obtain ⟨s0, s0', l, hpre, hstep⟩ := hs1.last_write hw pre tm x rfl
  cases hc : (scan pre).closed with
  | false => rfl
  | true =>
    exfalso
    have hret := (hpre.scanInv hr).closed hc
    have hclosed := (after_close_return P s0 hpre.reachable hret).1
    exact no_write_when_closed P s0 s0' l _ x hclosed hstep rfl

/-- **C12 on the observed trace** (the receiver never sees a long silence): in every accepted trace (writes visible), as long as
    nothing went wrong so far — no link fault, no write fault, no `close()` among the events before — every observed event (a
    write, a callback, the end of the observation) lies within one keep-alive interval plus one command spacing of the last observed
    write -/
theorem Tie_C12_observed_gap (P : Params) (hidden : List String) (evs : List (Nat × Ev))
    (hw : hidden.contains "write" = false) (h : (accept P hidden evs).accepted = true)
    (pre rest : List (Nat × Ev)) (tm : Nat) (e : Ev) (he : evs = pre ++ (tm, e) :: rest)
    (hq : quiet pre = true) (hne : traceWrites pre ≠ []) :
    tm ≤ ((traceWrites pre).getLast hne).1 + P.spacing + P.kaInterval := by
  obtain ⟨s, hs⟩ := accept_sound P hidden evs h
  have he' : evs = (pre ++ [(tm, e)]) ++ rest := by rw [he]; simp
  obtain ⟨s1, hs1⟩ := hs.prefix _ _ he'
  obtain ⟨s0, hpre, hnow⟩ := hs1.last_time pre tm e rfl
  have hH := hpre.healthy hq
  have hwr := hpre.writes hw
  have hwire : s0.wire ≠ [] := by
    intro hc
    have : wireTT s0 = [] := by simp [wireTT, hc]
    rw [← hwr] at this; exact hne this
  have hI1 := C12L.I1_inv P s0 hpre.reachable
  have hspc : s0.spc ≠ .notStarted := fun hc => hwire (hI1.2 hc)
  have hgap := C12L.gap_inv P s0 hpre.reachable ⟨hspc, hH.notDone, hH.notDead, hH.loss, hH.closeStarted, hH.closeUnpub, hH.writeFault, hH.portOpen⟩
  rw [lastTx_of_wire s0 hwire] at hgap
  have hlast : ((wireTT s0).getLast (by simpa [wireTT] using hwire)).1 = ((traceWrites pre).getLast hne).1 := by
    congr 1
    simp only [hwr]
  rw [hlast, hnow] at hgap
  exact hgap

/-- **C20 on the observed trace** (bounded, and faithful for what was sent): in every accepted trace (writes visible) a log snapshot
    holds at most `P.logSize` entries, and its `Send` entries are the END of the sequence "every line written so far, in
    transmission order, plus at most one line that is logged but not yet written" — nothing invented, nothing reordered, nothing
    skipped in between -/
theorem Tie_C20_observed_snapshot (P : Params) (hidden : List String) (evs : List (Nat × Ev))
    (hw : hidden.contains "write" = false) (h : (accept P hidden evs).accepted = true)
    (pre rest : List (Nat × Ev)) (tm : Nat) (es : List LogEntry) (he : evs = pre ++ (tm, Ev.snapshot es) :: rest) :
    es.length ≤ P.logSize ∧
    ∃ extra, extra.length ≤ 1 ∧ snapshotSends es <:+ (traceWrites pre).map (·.2) ++ extra := by
  obtain ⟨s, hs⟩ := accept_sound P hidden evs h
  have he' : evs = (pre ++ [(tm, Ev.snapshot es)]) ++ rest := by rw [he]; simp
  obtain ⟨s1, hs1⟩ := hs.prefix _ _ he'
  obtain ⟨s0, hpre, hring⟩ := hs1.last_snapshot pre tm es rfl
  subst hring
  refine ⟨ring_length _ _, ?_⟩
  obtain ⟨extra, hex, hlen⟩ := sends_faithful P s0 hpre.reachable
  refine ⟨extra, hlen, ?_⟩
  have hsuf : snapshotSends (logRing P s0) <:+ logSends s0 := by
    unfold snapshotSends logSends logRing
    exact (ring_suffix _ _).filterMap _
  have hwt : wireTexts s0 = (traceWrites pre).map (·.2) := by
    rw [hpre.writes hw]; simp [wireTexts, wireTT, Function.comp_def]
  rw [← hwt, ← hex]; exact hsuf

/-! non-vacuity: the acceptor accepts the start of a real session (reader started, two probes 100 ms apart)
and rejects the same trace with the second probe 50 ms early -/
def P0 : Params := ⟨100000, 30000000, 2000000, 1000000, 0⟩
def hid : List String := ["read", "clock", "enq", "ret", "exit"]
def good : List (Nat × Ev) :=
  [(0, .input .startR), (0, .output (.write probe)), (100000, .output (.write probe))]
def bad : List (Nat × Ev) :=
  [(0, .input .startR), (0, .output (.write probe)), (50000, .output (.write probe))]

example : (accept P0 hid good).accepted = true ∧ (accept P0 hid bad).accepted = false := by decide +kernel
example : (traceWrites good).map (·.1) = [0, 100000] := by decide
example : quiet good = true ∧ traceWrites good ≠ [] := by decide
/-- the scan recognises a returned close(): reader started, close() called by thread 10, its return observed -/
example : (scan [(0, .input .startR), (5, .input (.callClose 10)), (7, .output (.callRet 10))]).closed = true := by decide

end Ynca.Tie
