import YncaVerif.Lemmas.Server
import YncaVerif.Lemmas.ServerX
import YncaVerif.Gen.ServerTables
/-! # C18 — the test server replays what the recorded receiver said (L6 model of `ynca/server.py`) -/
namespace Ynca.C18
open Ynca.Srv

/-! ### ingestion -/

/-- a value line: `@S:F=V` with `V ≠ "?"`, handled as data by `fill_from_file` -/
abbrev IsValueLine := @Ynca.Srv.IsValueLine

/-- **last value wins**: after a value line the store answers with exactly that value for that key, every other key is untouched -/
theorem C18_ingest_value (st : Store) (cmd : Option Cmd) (raw : String) (c : Cmd) (h : IsValueLine cmd raw c) :
    getData (ingestLine (st, cmd) raw).1 c.subunit c.function = c.value ∧
    ∀ s f, (s, f) ≠ (c.subunit, c.function) → getData (ingestLine (st, cmd) raw).1 s f = getData st s f :=
  ingest_value st cmd raw c h

/-- **errors never overwrite values**: whatever the line, a key that holds a proper value keeps it unless the line is a value line for that key -/
theorem C18_ingest_keeps_values (st : Store) (cmd : Option Cmd) (raw : String) (s f : String)
    (hv : isError (getData st s f) = false)
    (hn : ∀ c, lineToCommand (cleanLine raw) = some c → (c.subunit, c.function) ≠ (s, f)) :
    getData (ingestLine (st, cmd) raw).1 s f = getData st s f :=
  ingest_keeps st cmd raw s f hv hn

/-! ### ordinary GET / PUT behave like an abstract map -/

/-- functions with special coupling in the handlers (by name), from the statement plus the handlers' tables -/
abbrev specialName := @Ynca.Srv.specialName

/-- an ordinary PUT: no special function, not a relative step on a volume function, not an error-marker text -/
abbrev OrdinaryPut := @Ynca.Srv.OrdinaryPut

/-- **GET**: the stored value as one well-formed line, or one error line when there is none; the store is not modified -/
theorem C18_get_ordinary (T : Tables) (st : Store) (s f : String) (hf : specialName T f = false) :
    handleGet T.multi st s f =
      (if isError (getData st s f) then [getData st s f] else [valueLine s f (getData st s f)]) :=
  get_ordinary T st s f hf

/-- **PUT of a new value** to a stored key: stored, reported back exactly once, returned by later GETs; other keys untouched -/
theorem C18_put_new (T : Tables) (va : VolArith) (st : Store) (s f v : String) (ho : OrdinaryPut T f v)
    (hk : hasKey st s f = true) (hne : getData st s f ≠ v) :
    (handlePut T va st s f v).2 = [valueLine s f v] ∧
    getData (handlePut T va st s f v).1 s f = v ∧
    ∀ s' f', (s', f') ≠ (s, f) → getData (handlePut T va st s f v).1 s' f' = getData st s' f' :=
  put_new T va st s f v ho hk hne

/-- **PUT of the current value**: no report, nothing changes -/
theorem C18_put_same (T : Tables) (va : VolArith) (st : Store) (s f v : String) (ho : OrdinaryPut T f v)
    (hk : hasKey st s f = true) (heq : getData st s f = v) :
    (handlePut T va st s f v).2 = [] ∧ ∀ s' f', getData (handlePut T va st s f v).1 s' f' = getData st s' f' :=
  put_same T va st s f v ho hk heq

/-- **PUT to a key the store does not have**: one error line, nothing changes -/
theorem C18_put_unknown (T : Tables) (va : VolArith) (st : Store) (s f v : String) (ho : OrdinaryPut T f v)
    (hk : hasKey st s f = false) :
    (∃ e, (handlePut T va st s f v).2 = [e] ∧ isError e = true) ∧ (handlePut T va st s f v).1 = st :=
  put_unknown T va st s f v ho hk

/-! ### every reply is a well-formed YNCA line; multi-value queries answer only with stored members -/

/-- `@S:F=V`, or one of the two error markers -/
abbrev WellFormed := @Ynca.Srv.WellFormed

theorem C18_get_wellformed (T : Tables) (st : Store) (s f : String) :
    ∀ l ∈ handleGet T.multi st s f, WellFormed l :=
  get_wellformed T st s f

theorem C18_put_wellformed (T : Tables) (va : VolArith) (st : Store) (s f v : String) :
    ∀ l ∈ (handlePut T va st s f v).2, WellFormed l ∨ l = crashMarker :=
  put_wellformed T va st s f v

/-- every value line a GET produces carries a value the store holds for that subunit (or the STRAIGHT override `On`) -/
theorem C18_get_only_stored (T : Tables) (st : Store) (s f : String) :
    ∀ l ∈ handleGet T.multi st s f, isError l = true ∨
      (∃ g, l = valueLine s g (getData st s g) ∧ isError (getData st s g) = false) ∨
      l = valueLine s "STRAIGHT" "On" :=
  get_only_stored T st s f

/-- **multi-name queries answer with stored members only, or with one error line — never both** (`INPNAME`, `SCENENAME`): the
    reply is exactly `[@UNDEFINED]`, or it is non-empty and contains no error line -/
theorem C18_names_members_xor_error (T : Tables) (st : Store) (s : String)
    (h1 : multiTable T.multi "INPNAME" = none) (h2 : multiTable T.multi "SCENENAME" = none) :
    MembersXorError (handleGet T.multi st "SYS" "INPNAME") ∧ MembersXorError (handleGet T.multi st s "SCENENAME") := by
  constructor
  · simp only [handleGet, h1]; exact handleGet1_inpname st false 2
  · simp only [handleGet, h2]; exact handleGet1_scenename st s false 2

/-- the hypotheses hold for the tables of the source (regenerated on every run) -/
theorem C18_name_groups_not_in_multi_table :
    multiTable Gen.multiTable "INPNAME" = none ∧ multiTable Gen.multiTable "SCENENAME" = none := by decide

end Ynca.C18
