import YncaVerif.Lemmas.Framing
/-! # C02 — received bytes are framed and parsed identically however they are chunked -/
namespace Ynca.C02

/-- a byte string that does not contain the terminator CR LF
    (`Ynca.NoCRLF l := splitFirst CR LF l = none`, defined in `Lemmas/Framing.lean`) -/
abbrev NoCRLF (l : List UInt8) : Prop := Ynca.NoCRLF l

/-- **chunk independence**: feeding a stream in any partition into reads yields exactly the packets
    (in order) and the final buffer of the undivided stream — including cuts inside CR LF and inside
    multi-byte characters, empty reads, and a non-empty initial buffer.  The initial buffer holds no
    complete packet (`NoCRLF buf`), as is the case for every buffer `feed` leaves behind
    (`splitAll_rem_none`); without it the statement fails for `chunks = []`, where `feedAll` returns
    the buffer unsplit. -/
theorem C02_chunk_independent (buf : List UInt8) (hbuf : NoCRLF buf) (chunks : List (List UInt8)) :
    feedAll CR LF buf chunks = splitAll CR LF (buf ++ chunks.flatten) :=
  feedAll_eq_splitAll CR LF buf chunks hbuf

/-- wire image of a list of lines followed by an unterminated tail
    (`Ynca.wire lines tail := (lines.map (· ++ [CR, LF])).flatten ++ tail`, defined in `Lemmas/Framing.lean`) -/
abbrev wire (lines : List (List UInt8)) (tail : List UInt8) : List UInt8 := Ynca.wire lines tail

/-- **framing round trip**: lines that do not contain CR LF come back exactly, one packet each, in
    order; an incomplete trailing line is never reported (it stays in the buffer) -/
theorem C02_lines_roundtrip (lines : List (List UInt8)) (tail : List UInt8)
    (hl : ∀ l ∈ lines, NoCRLF l) (ht : NoCRLF tail) :
    splitAll CR LF (wire lines tail) = (lines, tail) :=
  splitAll_wire lines tail hl ht

/-- the same, for any partition of the wire image into reads -/
theorem C02_lines_any_chunking (lines : List (List UInt8)) (tail : List UInt8)
    (hl : ∀ l ∈ lines, NoCRLF l) (ht : NoCRLF tail)
    (chunks : List (List UInt8)) (hc : chunks.flatten = wire lines tail) :
    feedAll CR LF [] chunks = (lines, tail) := by
  rw [C02_chunk_independent [] rfl, List.nil_append, hc]
  exact C02_lines_roundtrip lines tail hl ht

/-- UTF-8 never produces the bytes CR or LF except for the characters CR and LF themselves, hence the
    encoding of a text without the two-character sequence CR LF contains no terminator -/
theorem C02_utf8_no_terminator (s : String)
    (h : ∀ pre post : List Char, s.toList ≠ pre ++ '\r' :: '\n' :: post) :
    NoCRLF s.toUTF8.toList :=
  utf8_noCRLF s h

/-- **parse**: `@S:F=V` with `S` non-empty without colon, `F` non-empty without equals sign and ANY
    value text `V` (empty, containing `:`/`=`/CR/LF, any Unicode) is reported as OK with exactly S, F, V -/
theorem C02_parse (S F V : List Char) (hS : S ≠ []) (hS' : ':' ∉ S) (hF : F ≠ []) (hF' : '=' ∉ F) :
    parseLine (String.ofList ('@' :: S ++ ':' :: F ++ '=' :: V)) =
      ⟨.ok, some (String.ofList S), some (String.ofList F), some (String.ofList V)⟩ :=
  parseLine_fields S F V hS hS' hF hF'

/-- **status literals** -/
theorem C02_status :
    parseLine "@UNDEFINED" = ⟨.undefined, none, none, none⟩ ∧
    parseLine "@RESTRICTED" = ⟨.restricted, none, none, none⟩ := by
  constructor <;> decide +kernel

/-! ### non-vacuity -/
example : parseLine "@MAIN:VOL=-30.5" = ⟨.ok, some "MAIN", some "VOL", some "-30.5"⟩ := by decide +kernel
example : parseLine "@MAIN:ZONENAME=a:b=c\nd" = ⟨.ok, some "MAIN", some "ZONENAME", some "a:b=c\nd"⟩ := by decide +kernel
example : splitAll CR LF [64, 13, 10, 65, 13] = ([[64]], [65, 13]) := by decide +kernel
example : feedAll CR LF [] [[64, 13], [10, 65], [13]] = ([[64]], [65, 13]) := by decide +kernel
end Ynca.C02
