import YncaVerif.Props.C15
import YncaVerif.Props.C16
/-! # C14 — a failed initialize() raises in bounded time and leaves nothing behind

`YncaApi.initialize()` = connect, then a sequence of stages, `try/finally: close()` on failure.  The pieces
proved here: the connect failure path releases the port (L4), a waiting stage never outlives its deadline and
a failed stage is final (L5, Props/C06b), close() after a failure leaves the transport closed and the reader
stopped and never raises (C16), a lost connection is never delivered to again (C15).  That the exception is one
of the library's three types and that no accessor is set afterwards is checked on the implementation by the
monitor (object-level facts outside the models). -/
namespace Ynca.C14
open Ynca.L4

/-- the connection was lost before `connect()` completed: the port is closed before the error is raised -/
theorem C14_connect_failure_releases_port (P : Params) (s s' : St) (o : Option Obs)
    (h : step P s .connectFailed = some (s', o)) : s'.portOpen = false ∧ s.alive = false ∧ s.published = false := by
  simp only [step] at h
  split at h
  · rename_i hc
    simp only [Option.some.injEq, Prod.mk.injEq] at h
    obtain ⟨rfl, _⟩ := h
    exact ⟨rfl, hc.1, hc.2.1⟩
  · simp at h

/-- …and `connect()` can only fail this way once the reader has really stopped: callers never see a half-open
    connection (`publish` needs the connection-made event, `connectFailed` needs `alive = false`) -/
theorem C14_failure_only_when_reader_stopped (P : Params) (s : St) (h : (step P s .connectFailed).isSome = true) :
    s.alive = false := by
  simp only [step] at h
  split at h
  · rename_i hc; exact hc.1
  · simp at h

/-- after the `finally: close()` has returned: transport closed, reader told to stop -/
theorem C14_released_after_close (P : Params) (s : St) (h : Reachable P s) (hr : s.closeReturned = true) :
    s.portOpen = false ∧ s.alive = false :=
  C16.C16_after_return P s h hr

/-- close() itself cannot fail -/
theorem C14_close_never_raises (P : Params) (s s' : St) (l : Label) (o : Obs) (t : Tid)
    (h : step P s l = some (s', some o)) : o ≠ .closeRaised t :=
  C16.C16_never_raises P s s' l o t h

/-- a link failure during start-up is reported at most once and nothing is delivered afterwards -/
theorem C14_loss_is_quiet (P : Params) (s : St) (h : Reachable P s) : s.discCalls ≤ 1 :=
  C15.C15_at_most_once P s h

end Ynca.C14
