import YncaVerif.Model.Conn
/-! # C14 — (dialogue-level statements; under construction) -/
namespace Ynca.C14
open Ynca.L4
theorem C14_model_initial_state : run ⟨100000, 30000000, 2000000, 1000000, 0⟩ {} [] = some {} := rfl
end Ynca.C14
