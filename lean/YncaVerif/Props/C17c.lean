import YncaVerif.Lemmas.ConnCheck
import YncaVerif.Gen.Consts
/-! # C17 at message level — what `connection_check()` returns, for every device

`Model/ConnCheck.lean` (L5c) is tied to the code by executing it on the protocol events of real scheduled runs
(`harness/conncheck.py`: every run's outcome must be the model's).  Here the property is decided on that model:

* **partial, proved for every device and every interleaving of the caller with the two library threads**: when each reply is
  handled before the next command is taken out of the send queue (latency below the command spacing; first probe answered or
  swallowed), the result is exactly the model name of the reply to the check's own query and the zones whose `AVAIL` replies the
  device sent — or the connection error, and that only by time-out (`C17c_fast_result`, `C17c_error_only_at_deadline`);
* **the full statement is false, for every device that has a zone**: with both start-up probes taken before the first reply is
  handled, the reply to the second probe sets the event with an empty zone list (`C17c_slow_every_device`) — the recorded finding,
  no longer a single witness. -/
namespace Ynca.C17c
open Ynca Ynca.CC

/-- **fast replies, any device, any interleaving**: in a run in which the wait ends by the event, the reply to the check's own
    query has been handled by then (nothing of the dialogue is still to come), and the result is the model name of that reply with
    exactly the zones whose `AVAIL` replies the device sent -/
theorem C17c_fast_result (T : Nat) (l1 l2 : List Label) (s : St)
    (mn1 : Option String) (mn2 : String) (ans : List String) (mn3 n1 n2 n3 : String)
    (h1 : ∀ l, mn1 = some l → IsMnLine n1 l) (h2 : IsMnLine n2 mn2) (hn : ∀ a ∈ ans, isMn a = false) (h3 : IsMnLine n3 mn3)
    (hrun : run T {} (l1 ++ Label.wake :: l2) = some s)
    (hE : l1.filter isCW ++ l2.filter isCW = fastCore mn1 mn2 ans mn3) :
    l2.filter isCW = [] ∧ s.outcome = some (Outcome.ok n3 (zonesOf ans)) := by
  rw [run_append] at hrun
  cases hr1 : run T {} l1 with
  | none => simp [hr1] at hrun
  | some s1 =>
    simp only [hr1, Option.bind_some, run] at hrun
    cases hw : step T s1 Label.wake with
    | none => simp [hw] at hrun
    | some s2 =>
      simp only [hw] at hrun
      have hd1 := dOf_run T {} s1 l1 hr1
      rw [fold_filter] at hd1
      -- the wake step is enabled only with the event set
      have hev : s1.event = true ∧ s2.outcome = some (.ok s1.modelname s1.zones) := by
        simp only [step] at hw
        split at hw
        · split at hw
          · rename_i he; simp at hw; subst hw; exact ⟨he, rfl⟩
          · simp at hw
        · simp at hw
      have hev1 : ((l1.filter isCW).foldl dStep d0).event = true := by
        have : (dOf s1).event = true := hev.1
        rw [hd1] at this; exact this
      have hpost := fast_event_needs_all mn1 mn2 ans mn3 n1 n2 h1 h2 hn _ _ hE hev1
      refine ⟨hpost, ?_⟩
      rw [hpost, List.append_nil] at hE
      have hfold := fold_fastCore mn1 mn2 ans mn3 n1 n2 n3 h1 h2 hn h3
      rw [← hE] at hfold
      have hd1' : dOf s1 = ⟨false, true, true, n3, zonesOf ans, none⟩ := by rw [hd1]; exact hfold
      have hmn : s1.modelname = n3 := congrArg D.modelname hd1'
      have hz : s1.zones = zonesOf ans := congrArg D.zones hd1'
      have hd2 := dOf_run T s2 s l2 hrun
      rw [fold_noCW _ _ hpost] at hd2
      have : s.outcome = s2.outcome := congrArg D.outcome hd2
      rw [this, hev.2, hmn, hz]

/-- a wait that ends by time-out yields the connection error, whatever was received -/
theorem C17c_timeout_is_error (T : Nat) (s s' : St) (h : step T s .timeout = some s') : s'.outcome = some .error := by
  simp only [step] at h
  split at h
  · split at h
    · simp at h; subst h; rfl
    · simp at h
  · simp at h

/-- the error outcome needs the deadline: it is raised only when the time-out has expired … -/
theorem C17c_error_only_at_deadline (T : Nat) (ls : List Label) (s : St) (hrun : run T {} ls = some s)
    (he : s.outcome = some .error) : ∃ dl, s.deadline = some dl ∧ dl ≤ s.now :=
  (tinv_run T {} s ls tinv_init hrun).error_late he

/-- … and a waiting caller never sleeps past its deadline (nor past the event): the wait ends at the event or exactly at the
    time-out -/
theorem C17c_wait_is_bounded (T : Nat) (ls : List Label) (s : St) (hrun : run T {} ls = some s)
    (dl : Nat) (hd : s.deadline = some dl) (ho : s.outcome = none) (he : s.event = false) : s.now ≤ dl :=
  (tinv_run T {} s ls tinv_init hrun).urgent dl hd ho he

/-- **negation of the full statement, for every device**: both probes taken before the first reply is handled -/
theorem C17c_slow_every_device (T : Nat) (ls : List Label) (s : St) (mn1 mn2 n1 n2 : String)
    (h1 : IsMnLine n1 mn1) (h2 : IsMnLine n2 mn2) (hrun : run T {} ls = some s)
    (hf : ls.filter isCW = [Label.probe, Label.probe, Label.line mn1, Label.line mn2, Label.wake]) :
    s.outcome = some (Outcome.ok n2 []) := by
  have := dOf_run T {} s ls hrun
  have e : s.outcome = (dOf s).outcome := rfl
  rw [e, this, fold_filter, hf]
  have hs := fold_slow mn1 mn2 n1 n2 h1 h2
  have hd : dOf ({} : St) = d0 := rfl
  simp only [List.foldl_cons, List.foldl_nil, hd] at hs ⊢
  rw [hs]; rfl

/-- … and in that situation the caller cannot wait any longer: with the event set the clock does not advance before the wake -/
theorem C17c_event_is_urgent (T : Nat) (s : St) (dl d : Nat) (hd : s.deadline = some dl) (ho : s.outcome = none)
    (he : s.event = true) : step T s (.tick d) = none := by
  simp [step, hd, ho, he]

/-! ### non-vacuity: the hypotheses are met by real lines, and the time-out is the one in the source -/
example : IsMnLine "RX-V473" "@SYS:MODELNAME=RX-V473" := by unfold IsMnLine; decide +kernel
example : isMn "@MAIN:AVAIL=Ready" = false ∧ isMn "@RESTRICTED" = false := by decide +kernel
example : zonesOf ["@MAIN:AVAIL=Ready", "@RESTRICTED", "@ZONE3:AVAIL=Not Ready", "@UNDEFINED"] = ["MAIN", "ZONE3"] := by decide +kernel

def mn : String := "@SYS:MODELNAME=RX-V473"
/-- a concrete fast run: replies 50 ms after each command, the caller waits from time 0 -/
def fastRun : List Label :=
  [.probe, .wait, .tick 50000, .line mn, .tick 50000, .probe, .tick 50000, .line mn, .tick 100000, .line "@MAIN:AVAIL=Ready",
   .tick 100000, .line "@RESTRICTED", .tick 100000, .line "@ZONE3:AVAIL=Ready", .tick 100000, .line "@UNDEFINED", .tick 100000,
   .line mn, .wake]
example : (run Gen.ccTimeoutUs {} fastRun).map (·.outcome) = some (some (.ok "RX-V473" ["MAIN", "ZONE3"])) := by decide +kernel
/-- the same receiver answering after 150 ms: empty zone list -/
def slowRun : List Label :=
  [.probe, .wait, .tick 100000, .probe, .tick 50000, .line mn, .tick 100000, .line mn, .wake]
example : (run Gen.ccTimeoutUs {} slowRun).map (·.outcome) = some (some (.ok "RX-V473" [])) := by decide +kernel
/-- no reply at all: the error, exactly at the deadline -/
example : (run Gen.ccTimeoutUs {} [.probe, .wait, .tick 100000, .probe, .tick 1400000, .timeout]).map (fun s => (s.outcome, s.now)) =
    some (some .error, 1500000) := by decide +kernel
example : run Gen.ccTimeoutUs {} [.probe, .wait, .tick 100000, .probe, .tick 1300000, .timeout] = none := by decide +kernel
example : run Gen.ccTimeoutUs {} [.probe, .wait, .tick 100000, .probe, .tick 1400001] = none := by decide +kernel

end Ynca.C17c
