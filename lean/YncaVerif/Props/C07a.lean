import YncaVerif.Lemmas.Api
import YncaVerif.Props.C07
/-! # C07 / C14 at the level of the `YncaApi` program (L7, Model/Api.lean)

What `initialize()` leaves in `_subunits`, for every delivery of messages, every timing and every outcome of the
per-object initialisations.  The model is executed on real runs of `YncaApi.initialize()` by `harness/apimodel.py`
(driver mode `api`): the labels are read off the scheduled execution, each must be enabled, and the model's key list must
be the real object's. -/
namespace Ynca.C07a
open Ynca.L7

/-- **exactly the subunits the device announced**: after a normal return of `initialize()` the keys of `_subunits`
    are — in this order — `SYS`, then the ids heard in an `AVAIL` message during the detection stage that have a class,
    in ascending order (one key each). -/
theorem C07a_ready_keys (P : Params) (a : A) (h : Reachable P a) (hr : a.phase = .ready) :
    a.subunits = keysOf (plan P.classIds a.avail) := by
  have := (inv_reachable P a h).phase
  unfold PhaseInv at this
  rw [hr] at this
  exact this.2.2.2

/-- the accessor of `x` is set exactly when `x` is `SYS` or an `AVAIL` message for `x` was delivered to the API's
    callback during the detection stage of this `initialize()` and a class is registered for `x` -/
theorem C07a_accessor_iff (P : Params) (a : A) (h : Reachable P a) (hr : a.phase = .ready) (x : String) :
    x ∈ a.subunits ↔ x = "SYS" ∨ ((∃ m ∈ a.heard, m.fn = some "AVAIL" ∧ m.subunit = some x) ∧ x ∈ P.classIds) := by
  have hi := inv_reachable P a h
  rw [C07a_ready_keys P a h hr, mem_keysOf, mem_plan, hi.heard x]
  unfold availOf
  simp only [List.mem_filterMap]
  constructor
  · rintro (h1 | ⟨⟨m, hm, hx⟩, hc⟩)
    · exact Or.inl h1
    · refine Or.inr ⟨⟨m, hm, ?_⟩, hc⟩
      by_cases hf : m.fn = some "AVAIL"
      · simp [hf] at hx; exact ⟨hf, hx⟩
      · have : (m.fn == some "AVAIL") = false := by simpa using hf
        simp [this] at hx
  · rintro (h1 | ⟨⟨m, hm, hf, hx⟩, hc⟩)
    · exact Or.inl h1
    · exact Or.inr ⟨⟨m, hm, by simp [hf, hx]⟩, hc⟩

/-- every id the library knows has a class (regenerated tables): for those, "has a class" drops out -/
theorem C07a_known_ids_have_classes : Gen.subunitIds.all (fun i => (Gen.classes.map (·.id)).contains i) = true := by
  decide +kernel

/-- a normal return needs the synchronisation reply: a `SYS`/`VERSION` message was delivered after detection began -/
theorem C07a_ready_needs_sync (P : Params) (a : A) (h : Reachable P a)
    (hr : a.phase = .ready ∨ ∃ todo, a.phase = .building todo) :
    ∃ m ∈ a.heard, m.subunit = some "SYS" ∧ m.fn = some "VERSION" := by
  have hi := inv_reachable P a h
  have hph := hi.phase
  unfold PhaseInv at hph
  have he : a.event = true := by
    rcases hr with hr | ⟨todo, hr⟩
    · rw [hr] at hph; exact hph.2.2.1
    · rw [hr] at hph; exact hph.2.2.1
  rw [hi.event, List.any_eq_true] at he
  obtain ⟨m, hm, hv⟩ := he
  refine ⟨m, hm, ?_⟩
  simpa [isVersionMsg] using hv

/-- the keys are pairwise distinct and, after `SYS`, ascending -/
theorem C07a_plan_shape (cls av : List String) (h : av.Nodup) :
    (plan cls av).head? = some "SYS" ∧ Sorted (plan cls av).tail ∧ (plan cls av).tail.Nodup :=
  ⟨rfl, plan_tail_sorted cls av, plan_tail_nodup cls av h⟩

/-- **C14 at this level — a failed `initialize()` leaves nothing behind**: whenever `initialize()` has raised (or the
    object was closed) no accessor is set and the connection is forgotten -/
theorem C14a_failed_leaves_nothing (P : Params) (a : A) (h : Reachable P a)
    (hf : a.phase = .failed ∨ a.phase = .closed) : a.subunits = [] ∧ a.connection = false := by
  have hph := (inv_reachable P a h).phase
  unfold PhaseInv at hph
  rcases hf with hf | hf <;> (rw [hf] at hph; exact ⟨hph.1, hph.2.1⟩)

/-- nothing is visible before the detection stage has ended -/
theorem C07a_nothing_before_detection (P : Params) (a : A) (h : Reachable P a)
    (hd : a.phase = .enqueueing ∨ ∃ dl, a.phase = .detecting dl) : a.subunits = [] := by
  have hph := (inv_reachable P a h).phase
  unfold PhaseInv at hph
  rcases hd with hd | ⟨dl, hd⟩ <;> (rw [hd] at hph; exact hph.1)

/-- **bounded**: the detection wait cannot outlast its deadline, and at the deadline (or as soon as the event is set)
    the caller moves: the stage always ends -/
theorem C14a_detection_bounded (P : Params) (a : A) (h : Reachable P a) (dl : Nat) (hd : a.phase = .detecting dl) :
    a.now ≤ dl ∧ ((step P a .wake).isSome ∨ (step P a .timeout).isSome ∨ ∀ d, a.now + d ≤ dl → (step P a (.tick d)).isSome) := by
  have hph := (inv_reachable P a h).phase
  unfold PhaseInv at hph
  rw [hd] at hph
  refine ⟨hph.2.2.2, ?_⟩
  by_cases he : a.event = true
  · left; simp [step, hd, he]
  · right; right
    intro d hdl
    simp [step, hd, he, hdl]

/-- the deadline is the start of the wait plus `2 s + 5·spacing` per submitted command -/
theorem C14a_deadline (P : Params) (a a' : A) (n : Nat) (h : step P a (.wait n) = some a') :
    a'.phase = .detecting (a.now + P.baseUs + P.perCmdUs * n) := by
  simp only [step] at h
  split at h
  · cases h; rfl
  · cases h

/-! ## non-vacuity: closed executions -/

def okMsg (s f v : String) : Msg := ⟨.ok, some s, some f, some v⟩

/-- a receiver with MAIN and ZONE2; `TUN` answers with an error; an id without a class is announced too -/
def demo : List Label :=
  [.start, .wait 24, .tick 300000,
   .msg ⟨.undefined, none, none, none⟩, .msg (okMsg "ZONE2" "AVAIL" "Not Ready"), .msg (okMsg "MAIN" "AVAIL" "Ready"),
   .msg (okMsg "MAIN" "AVAIL" "Ready"), .msg (okMsg "FUTURE" "AVAIL" "Ready"), .msg (okMsg "MAIN" "VOL" "-30.0"),
   .msg (okMsg "SYS" "VERSION" "1.2/3.4"), .wake, .msg (okMsg "ZONE3" "AVAIL" "Ready"),
   .subunitOk, .tick 5, .subunitOk, .subunitOk]

example : (run { classIds := Gen.classes.map (·.id) } {} demo).map (fun a => (a.phase, a.subunits)) =
    some (.ready, ["SYS", "MAIN", "ZONE2"]) := by decide +kernel

example : (run { classIds := Gen.classes.map (·.id) } {} [.start, .wait 24, .tick 14000000, .timeout]).map
    (fun a => (a.phase, a.subunits, a.connection)) = some (.failed, [], false) := by decide +kernel

/-- the wait cannot be left by the time-out one microsecond early, nor can the clock pass the deadline -/
example : run { classIds := [] } {} [.start, .wait 24, .tick 13999999, .timeout] = none := by decide +kernel
example : run { classIds := [] } {} [.start, .wait 24, .tick 14000001] = none := by decide +kernel

end Ynca.C07a
