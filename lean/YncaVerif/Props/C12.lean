import YncaVerif.Lemmas.C12
/-! # C12 — the device never sees a silent gap longer than the keep-alive interval
Over the L4 model with urgency (time passes only while no library thread can move). -/
namespace Ynca.C12
open Ynca.L4 Ynca.L4.C12L

/-- the connection is up and healthy: sender running, reader not in `connection_lost`, no close() begun,
    no write error -/
def Up (s : St) : Prop :=
  s.spc ≠ .notStarted ∧ s.spc ≠ .done ∧ s.spc ≠ .dead ∧ lossBegun s.rpc = false ∧
  s.closeStarted = false ∧ s.writeFault = false ∧ s.portOpen = true

/-- **gap**: while the connection is up, the time since the last transmission (since the connection was
    made, before the first one) never exceeds one command spacing plus the keep-alive interval -/
theorem C12_gap (P : Params) (s : St) (h : Reachable P s) (hup : Up s) :
    s.now ≤ lastTx s + P.spacing + P.kaInterval :=
  gap_inv P s h hup

/-- instantiated with the protocol's numbers as explicit hypotheses: at most 30.1 s -/
theorem C12_gap_30s (P : Params) (hP : P.kaInterval + P.spacing ≤ 30100000) (s : St) (h : Reachable P s) (hup : Up s) :
    s.now ≤ lastTx s + 30100000 := by
  have := gap_inv P s h hup; omega

/-- **two probes first**: as long as the reader has not begun `connection_lost`, the first two
    transmissions of a connection are keep-alive probes.  (Without the hypothesis the statement is false:
    the drain loop of `connection_lost` may discard the two queued keep-alives before the sender has taken
    them, and a command submitted afterwards is then the first thing on the wire.) -/
theorem C12_two_probes (P : Params) (s : St) (h : Reachable P s) (hl : lossBegun s.rpc = false) :
    ∀ e ∈ s.wire.take 2, e.2.2 = none ∧ e.2.1 = probe :=
  first_two_probes P s h hl

end Ynca.C12
