import YncaVerif.Model.Conn
/-! # C12 — (statements over the L4 model; under construction) -/
namespace Ynca.C12
open Ynca.L4
theorem C12_model_initial_state : run ⟨100000, 30000000, 2000000, 1000000, 0⟩ {} [] = some {} := rfl
end Ynca.C12
