import YncaVerif.Lemmas.C12
/-! # C12 — the device never sees a silent gap longer than the keep-alive interval
Over the L4 model with urgency (time passes only while no library thread can move). -/
namespace Ynca.C12
open Ynca.L4 Ynca.L4.C12L

/-- the connection is up and healthy: sender running, reader not in `connection_lost`, no close() begun
    (neither one that cleared the disconnect callback, `closeStarted`, nor one entered while `connect()` had
    not completed, `closeUnpub` — that one skips the clearing step but stops the transport all the same),
    no write error -/
def Up (s : St) : Prop :=
  s.spc ≠ .notStarted ∧ s.spc ≠ .done ∧ s.spc ≠ .dead ∧ lossBegun s.rpc = false ∧
  s.closeStarted = false ∧ s.closeUnpub = false ∧ s.writeFault = false ∧ s.portOpen = true

/-- the added conjunct of `Up` costs nothing once `connect()` has returned: a close() can take the
    unpublished path only while `_protocol` is unassigned, so on a published connection on which no such close()
    was entered before, none is ever entered (both facts are preserved by every step) -/
theorem C12_no_unpublished_close_once_published (P : Params) (s s' : St) (l : Label) (o : Option Obs)
    (hp : s.published = true) (hu : s.closeUnpub = false) (h : step P s l = some (s', o)) :
    s'.published = true ∧ s'.closeUnpub = false := by
  cases l <;> simp only [step] at h
  case s => l4_split_s h <;> simp_all [enqueue]
  case r => l4_split_r h <;> simp_all [enqueue]
  case u t => l4_split_u h <;> simp_all
  all_goals l4_split_other h <;> simp_all

/-- **gap**: while the connection is up, the time since the last transmission (since the connection was
    made, before the first one) never exceeds one command spacing plus the keep-alive interval -/
theorem C12_gap (P : Params) (s : St) (h : Reachable P s) (hup : Up s) :
    s.now ≤ lastTx s + P.spacing + P.kaInterval :=
  gap_inv P s h hup

/-- instantiated with the protocol's numbers as explicit hypotheses: at most 30.1 s -/
theorem C12_gap_30s (P : Params) (hP : P.kaInterval + P.spacing ≤ 30100000) (s : St) (h : Reachable P s) (hup : Up s) :
    s.now ≤ lastTx s + 30100000 := by
  have := gap_inv P s h hup; omega

/-- **two probes first**: as long as the reader has not begun `connection_lost`, the first two
    transmissions of a connection are keep-alive probes.  (Without the hypothesis the statement is false:
    the drain loop of `connection_lost` may discard the two queued keep-alives before the sender has taken
    them, and a command submitted afterwards is then the first thing on the wire.) -/
theorem C12_two_probes (P : Params) (s : St) (h : Reachable P s) (hl : lossBegun s.rpc = false) :
    ∀ e ∈ s.wire.take 2, e.2.2 = none ∧ e.2.1 = probe :=
  first_two_probes P s h hl

end Ynca.C12
