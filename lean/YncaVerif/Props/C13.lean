import YncaVerif.Lemmas.C13
/-! # C13 — keep-alive traffic is invisible and swallows nothing else
Over the L4 model at attribute granularity: the sender sets the flag when it dequeues a probe (`s1`),
the reader reads the flag (`r1`) and clears it (`r2`) for every line, in separate steps that interleave
freely.  `decisions` records, for every received line, its text, whether it was withheld, and whether a
probe had been flagged since the flag was last cleared (i.e. since the previous line was processed, or
since the connection was made). -/
namespace Ynca.C13
open Ynca.L4

/-- the line is a `SYS:MODELNAME` report -/
abbrev isModelname := @Ynca.L4.isModelname

/-- the flag is set exactly when a probe was flagged since it was last cleared -/
theorem C13_flag_exact (P : Params) (s : St) (h : Reachable P s) :
    s.kaPending = decide (s.probesAtClear < s.probesStarted) :=
  flag_exact P s h

/-- **only if**: a line is withheld only if it is a `SYS:MODELNAME` line and a probe was started since the
    previous line was processed -/
theorem C13_only_if (P : Params) (s : St) (h : Reachable P s) :
    ∀ d ∈ s.decisions, d.2.1 = true → isModelname d.1 = true ∧ d.2.2 = true :=
  withheld_only_if P s h

/-- **delivered otherwise**: every other line is delivered — in particular a MODELNAME reply to the user's own
    query when no probe has been started since the previous line -/
theorem C13_delivered_otherwise (P : Params) (s : St) (h : Reachable P s) :
    ∀ d ∈ s.decisions, (isModelname d.1 = false ∨ d.2.2 = false) → d.2.1 = false :=
  delivered_otherwise P s h

/-- **converse**: a MODELNAME line that arrives while a probe has been started since the flag was last
    cleared is withheld -/
theorem C13_converse (P : Params) (s : St) (h : Reachable P s) :
    ∀ d ∈ s.decisions, isModelname d.1 = true → d.2.2 = true → d.2.1 = true :=
  withheld_if P s h

/-- a withheld line reaches no message callback: the reader goes straight back to splitting the buffer -/
theorem C13_withheld_not_delivered (P : Params) (s s' : St) (l : String) (o : Option Obs)
    (hpc : s.rpc = .line2 l true) (h : step P s .r = some (s', o)) : s'.rpc = .split ∧ o = none :=
  withheld_skips_delivery P s s' l o hpc h

end Ynca.C13
