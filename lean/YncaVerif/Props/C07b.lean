import YncaVerif.Lemmas.DialogueSeg
import YncaVerif.Props.C07a
/-! # C07 — from the device to the accessors: L5 (dialogue with a sequential-responder device) composed with L7 (the API program)

L5 says what the reader has PROCESSED when the caller of a stage is woken (`woken_has_processed_answers`: every line of the
answer to every command of the stage — the barrier); L7 says what the API object makes of the messages its callback was
handed (`C07a_accessor_iff`).  Here the two are put together: for every device (`AnswerOk`: one `SYS:VERSION` line in answer to
the synchronisation query, none otherwise), every interleaving of sender, device and reader, every timing —
if the device's answer to the `AVAIL` query of `x` contains a value line for `x`, then after a normal return of `initialize()` the
accessor of `x` is set.  The one hypothesis that links the two models, `hheard`, is the connection's delivery contract (every
processed line is handed, parsed, to every registered callback: C02 / C09 over L1–L4). -/
namespace Ynca.C07b
open Ynca.L5 Ynca.L7

def availQuery (x : String) : String := "@" ++ x ++ ":AVAIL=?"

/-- the device announces `x`: a line of its answer to `x`'s `AVAIL` query is an `AVAIL` message for `x` -/
def Announces (answer : Answer) (x : String) : Prop :=
  ∃ l ∈ answer (availQuery x), (parseLine l).fn = some "AVAIL" ∧ (parseLine l).subunit = some x

/-- **barrier, with content**: at the moment the detection stage is woken, the announcement of every subunit whose query
    belongs to the stage is among the lines the reader has processed -/
theorem C07b_announced_is_processed (answer : Answer) (ha : AnswerOk answer) (s : D) (h : L5.Reachable answer s)
    (first count dl : Nat) (hw : s.stage = .waiting first count dl) (he : s.event = true)
    (i : Nat) (hi : i < first + count) (x : String) (hq : s.written[i]? = some (availQuery x)) (han : Announces answer x) :
    ∃ l ∈ s.emitted.take s.processed, (parseLine l).fn = some "AVAIL" ∧ (parseLine l).subunit = some x := by
  obtain ⟨l, hl, hf, hs⟩ := han
  exact ⟨l, woken_has_processed_answers answer ha s h first count dl hw he i hi _ hq l hl, hf, hs⟩

/-- **device → accessor**: the L5 state `s` is the dialogue at the moment the detection stage of this `initialize()` is woken,
    the L7 state `a` is the API object after its normal return; the API's callback was handed every line processed until then. -/
theorem C07b_announced_subunit_is_exposed (P : L7.Params) (a : A) (hr : L7.Reachable P a) (hready : a.phase = .ready)
    (answer : Answer) (ha : AnswerOk answer) (s : D) (h : L5.Reachable answer s)
    (first count dl : Nat) (hw : s.stage = .waiting first count dl) (he : s.event = true)
    (hheard : ∀ l ∈ s.emitted.take s.processed, parseLine l ∈ a.heard)
    (i : Nat) (hi : i < first + count) (x : String) (hq : s.written[i]? = some (availQuery x))
    (han : Announces answer x) (hx : x ∈ P.classIds) :
    x ∈ a.subunits := by
  obtain ⟨l, hl, hf, hs⟩ := C07b_announced_is_processed answer ha s h first count dl hw he i hi x hq han
  rw [C07a.C07a_accessor_iff P a hr hready x]
  exact Or.inr ⟨⟨parseLine l, hheard l hl, hf, hs⟩, hx⟩

/-- **accessor → device** (the converse): an accessor other than `SYS` is set only if some line handed to the API's callback
    during detection was an `AVAIL` message for it; when everything the callback was handed are lines the device emitted, and
    the device emits `AVAIL` lines for `x` only in answer to `x`'s query, the device announced `x` -/
theorem C07b_exposed_subunit_was_announced (P : L7.Params) (a : A) (hr : L7.Reachable P a) (hready : a.phase = .ready)
    (answer : Answer) (emitted : List String)
    (hfrom : ∀ m ∈ a.heard, ∃ l ∈ emitted, parseLine l = m)
    (x : String) (hx : x ≠ "SYS") (hmem : x ∈ a.subunits)
    (honly : ∀ l ∈ emitted, (parseLine l).fn = some "AVAIL" → (parseLine l).subunit = some x → l ∈ answer (availQuery x)) :
    Announces answer x := by
  rw [C07a.C07a_accessor_iff P a hr hready x] at hmem
  rcases hmem with h1 | ⟨⟨m, hm, hf, hs⟩, _⟩
  · exact absurd h1 hx
  · obtain ⟨l, hl, hlm⟩ := hfrom m hm
    subst hlm
    exact ⟨l, honly l hl hf hs, hf, hs⟩

/-! non-vacuity: a device that announces MAIN; the detection stage asks for MAIN and ZONE2 -/
def demoAnswer : Answer := fun q =>
  if q == versionQuery then ["@SYS:VERSION=1.0"] else if q == availQuery "MAIN" then ["@MAIN:AVAIL=Ready"] else ["@RESTRICTED"]

example : Announces demoAnswer "MAIN" := ⟨"@MAIN:AVAIL=Ready", by decide +kernel, by decide +kernel, by decide +kernel⟩

example : ((L5.run demoAnswer {} [.begin [availQuery "MAIN", availQuery "ZONE2"] 3500000, .write, .write, .write, .consume, .consume,
    .consume, .process, .process, .process]).map (fun s => (s.event, s.emitted.take s.processed))) =
    some (true, ["@MAIN:AVAIL=Ready", "@RESTRICTED", "@SYS:VERSION=1.0"]) := by decide +kernel

end Ynca.C07b
