import YncaVerif.Props.C03
import YncaVerif.Gen.Consts
/-! # C07 — initialize() exposes exactly the subunits the device has, fully populated

Stage barriers (`C07_one_version_outstanding`, `C07_barrier_all_stages`) are in Props/C06b.lean over the L5
dialogue model.  Here: the object-level consequences over L3 — what a subunit object reads once its stage's
lines have been processed — and the facts about the regenerated tables the detection stage relies on. -/
namespace Ynca.C07

/-- **populated**: an object that has been handed the processed lines `h` (all subunits, error replies and
    unsolicited reports interleaved) reads, for every readable function, the typed decoding of the last value
    reported for exactly its subunit and function — so if the device's answer to the GET of `f` (or of the
    multi-value query containing it) is among the processed lines, the attribute is that value or a later
    report for the same function -/
theorem C07_populated (tbls : List EnumTbl) (ex : Exotic) (c : Cls) (hc : clsOk c = true)
    (f : Fn) (hf : f ∈ c.fns) (hget : f.get = true) (h : List Msg) :
    readAttr (h.foldl (recv tbls ex) (SubSt.new c)) f.attr = .value (lastReported tbls ex c f h) :=
  C03.C03_read_is_last tbls ex c hc f hf hget h

/-- a value line for `(c.id, f)` at the end of the processed prefix is what the attribute reads -/
theorem C07_answer_is_read (tbls : List EnumTbl) (ex : Exotic) (c : Cls) (hc : clsOk c = true)
    (f : Fn) (hf : f ∈ c.fns) (hget : f.get = true) (h : List Msg) (v : String) (val : Val)
    (hd : decodeFull tbls ex f.conv v = some val) :
    readAttr ((h ++ [(⟨.ok, some c.id, some f.name, some v⟩ : Msg)]).foldl (recv tbls ex) (SubSt.new c)) f.attr = .value (some val) := by
  rw [C03.C03_read_is_last tbls ex c hc f hf hget]
  simp [C03.lastReported, Ynca.lastReported, Ynca.reports, hd]

/-- **identity / class lookup**: every subunit id the detection stage probes, except none, has exactly one class
    in the regenerated tables, and ids are pairwise distinct -/
def idsOk (ids : List String) (cs : List Cls) : Bool :=
  ids.all (fun i => (cs.filter (·.id == i)).length == 1) && nodupStr ids && nodupStr (cs.map (·.id))

theorem C07_class_for_every_id : idsOk Gen.subunitIds Gen.classes = true := by decide +kernel

/-- every class models `AVAIL` as a readable function (the detection query is answerable for each) -/
theorem C07_avail_everywhere : Gen.classes.all (fun c => c.fns.any (fun f => f.name == "AVAIL" && f.get)) = true := by
  decide +kernel

end Ynca.C07
