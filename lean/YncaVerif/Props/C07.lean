import YncaVerif.Model.Conn
/-! # C07 — (dialogue-level statements; under construction) -/
namespace Ynca.C07
open Ynca.L4
theorem C07_model_initial_state : run ⟨100000, 30000000, 2000000, 1000000, 0⟩ {} [] = some {} := rfl
end Ynca.C07
