import YncaVerif.Lemmas.NoHang
import YncaVerif.Lemmas.AcceptSound
/-! # The library never waits for ever on itself (supports C14 "never hangs", C15 "both threads terminate", C16 "always returns")

Over the L4 model, for every reachable state (any number of callers, any device, faults, `close()` on any thread at any time):

* `L4_time_never_stops`: when no library thread can take a step, time can pass (no time-lock);
* `L4_always_a_step`: some step of the library's own threads or of the clock is always enabled (no deadlock);
* `L4_no_hang`: when no thread can move **and no time-out lies ahead** — the situation in which nothing would ever happen again —
  then either the reader's read time-out has just expired, or the reader is inside user code that is free to return, or every
  thread has finished.  So every wait of the library is either bounded by a deadline or a wait for the user / the device;
* `L4_lock_holder_progresses`: whoever holds the transport lock is at a point from which it releases it.

Bounds in time (how long `close()` takes) remain with the monitors. -/
namespace Ynca.L4Live
open Ynca.L4 Ynca.L4.NoHang

theorem L4_lock_holder_progresses (P : Params) (s : St) (h : Reachable P s) (t : Tid) (hl : s.lock = some t) :
    (t = tidS ∧ C12L.holdsLock s.spc = true) ∨ holdsClose (upcOf s t) = true :=
  lockInv P s h t hl

theorem L4_no_hang (P : Params) (s : St) (hr : Reachable P s) (hcm : canMove P s = false)
    (hdl : ∀ dl ∈ deadlines s, dl ≤ s.now) :
    (step P s (.rGet true)).isSome = true ∨ (step P s .cbRet).isSome = true ∨ Quiescent s :=
  no_hang P s hr hcm hdl

theorem L4_time_never_stops (P : Params) (s : St) (hcm : canMove P s = false) : ∃ d, (step P s (.tick d)).isSome = true :=
  ⟨_, by rw [tick_jump P s (s.now + 1) hcm (Nat.lt_succ_self _)]; rfl⟩

/-- a library step is enabled whenever `canMove` says so -/
theorem canMove_gives_label (P : Params) (s : St) (h : canMove P s = true) :
    ∃ l, isThreadLabel l = true ∧ (step P s l).isSome = true := by
  unfold canMove at h
  simp only [Bool.or_eq_true] at h
  rcases h with ((((h | h) | h) | h) | h) | h
  · exact ⟨.s, rfl, h⟩
  · exact ⟨.r, rfl, h⟩
  · exact ⟨.u tidR, rfl, h⟩
  · split at h
    · rename_i l c cs hrp
      refine ⟨.rCb c, rfl, ?_⟩
      simp only [step, hrp]
      simp only [List.contains_cons, beq_self_eq_true, Bool.true_or, if_true]
      split <;> rfl
    · simp at h
  · rw [List.any_eq_true] at h
    obtain ⟨c, _, hc⟩ := h
    exact ⟨.u c.1, rfl, hc⟩
  · split at h
    · rename_i n dl hrp
      refine ⟨.rGet false, rfl, ?_⟩
      simp only [step, hrp]
      simp only [Bool.or_eq_true, Bool.not_eq_true'] at h
      rcases h with (h | h) | h
      · simp [h]
      · by_cases h1 : s.inbox.isEmpty = false
        · simp [h1]
        · simp at h1; simp [h1, h]
      · by_cases h1 : s.inbox.isEmpty = false
        · simp [h1]
        · by_cases h2 : s.faultPending = true
          · simp at h1; simp [h1, h2]
          · simp at h1 h2; simp [h1, h2, h]
    · simp at h

/-- **no deadlock, no time-lock** -/
theorem L4_always_a_step (P : Params) (s : St) : ∃ l, isThreadLabel l = true ∧ (step P s l).isSome = true := by
  cases h : canMove P s with
  | true => exact canMove_gives_label P s h
  | false =>
    obtain ⟨d, hd⟩ := L4_time_never_stops P s h
    exact ⟨.tick d, rfl, hd⟩

/-! non-vacuity: a whole session ends quiescent — start, two probes, planned close() from a caller thread -/
def P0 : Params := ⟨100000, 30000000, 2000000, 1000000, 0⟩
def session : List Label :=
  [.startR, .r, .r, .r, .r, .r, .publish,                      -- connection_made, connect() returns
   .s, .s, .s, .s, .s, .s, .r,                                  -- first probe written; the reader blocks in read()
   .callClose 10, .u 10, .u 10, .u 10,                          -- close(): clear the callback, take the lock, alive := false, join
   .tick 100000, .s, .s, .s, .s,                                -- the sender takes the second probe, logs it and waits for the lock
   .tick 900000, .rGet true, .r, .r, .r, .r,                    -- the read times out, the reader leaves its loop: connection_lost drains,
                                                                --   posts _EXIT and joins the sender (which waits for the lock)
   .tick 1000000, .u 10, .u 10, .u 10, .u 10,                   -- close()'s join times out (2 s): port closed, lock released, close() returns
   .s, .s, .r, .r, .r]                                          -- the sender gets the lock, its write is rejected: it dies; the reader ends

example : ∃ s, run P0 {} session = some s ∧ canMove P0 s = false ∧ deadlines s = [] ∧
    s.spc = .dead ∧ s.rpc = .done ∧ upcOf s 10 = .idle ∧ s.portOpen = false := by
  decide +kernel

end Ynca.L4Live
