import YncaVerif.Lemmas.Server
import YncaVerif.Gen.Recordings
import YncaVerif.Gen.ServerTables
/-! # C19 — no client command can make the test server drop the session (L6 model)

Every handler of the model is a total function; the single place where the source can still raise
(`[...][0]` on an empty list in the PLAYBACK coupling) is explicit as the pseudo output `crashMarker`. -/
namespace Ynca.C19
open Ynca.Srv

/-- no zone of the store has a `PLAYBACK` key -/
abbrev NoZonePlayback := @Ynca.Srv.NoZonePlayback

/-- **no command crashes the handler** on such a store … -/
theorem C19_no_crash (T : Tables) (va : VolArith) (st : Store) (h : NoZonePlayback T st) (line : String) :
    crashMarker ∉ (handleCommand T va st line).2 :=
  no_crash T va st h line

/-- … and the handlers never add or remove keys, so the predicate holds for the whole session -/
theorem C19_keys_invariant (T : Tables) (va : VolArith) (st : Store) (line : String) (s f : String) :
    hasKey (handleCommand T va st line).1 s f = hasKey st s f :=
  keys_invariant T va st line s f

theorem C19_session (T : Tables) (va : VolArith) (st : Store) (h : NoZonePlayback T st) (lines : List String) :
    NoZonePlayback T (lines.foldl (fun st l => (handleCommand T va st l).1) st) ∧
    ∀ pre l post, lines = pre ++ l :: post →
      crashMarker ∉ (handleCommand T va (pre.foldl (fun st l => (handleCommand T va st l).1) st) l).2 :=
  session_no_crash T va st h lines

/-- none of the 12 bundled recordings contains a `PLAYBACK` line for a zone (regenerated fact), hence the stores
    ingested from them have no such key -/
theorem C19_recordings_no_zone_playback : Gen.recZonePlayback = [] := by decide

/-- **relative steps only for the two volume functions**: for every other function the handler never consults the
    volume arithmetic — `Up…`/`Down…` are values like any other, and `Up` and `Down` are treated identically -/
theorem C19_relative_only_volume (T : Tables) (va va' : VolArith) (st : Store) (s f v : String)
    (hf : f ≠ "VOL" ∧ f ≠ "ZONEBVOL") : handlePut T va st s f v = handlePut T va' st s f v :=
  put_ignores_arith T va va' st s f v hf

/-- the arithmetic is attempted only for values that start with `Up` or `Down` -/
theorem C19_relative_needs_updown (T : Tables) (va va' : VolArith) (st : Store) (s f v : String)
    (hv : v.startsWith "Up" = false ∧ v.startsWith "Down" = false) : handlePut T va st s f v = handlePut T va' st s f v :=
  put_ignores_arith_value T va va' st s f v hv

end Ynca.C19
