-- Root of the `YncaVerif` library: models, lemmas and the property theorems that are complete.
import YncaVerif.Model.Accept
import YncaVerif.Model.Server
import YncaVerif.Props.C01
import YncaVerif.Props.C02
import YncaVerif.Props.C03
import YncaVerif.Props.C04
import YncaVerif.Props.C05
import YncaVerif.Props.C06
import YncaVerif.Props.C08
import YncaVerif.Props.C09
import YncaVerif.Props.C10
import YncaVerif.Props.C11
import YncaVerif.Props.C13
import YncaVerif.Props.C15
import YncaVerif.Props.C16
import YncaVerif.Props.C20
