import YncaVerif.Model.Types
import YncaVerif.Model.Stepped
