import YncaVerif.Model.Hex
import YncaVerif.Model.Conv
import YncaVerif.Gen.Enums
import YncaVerif.Gen.Functions
import YncaVerif.Gen.Consts
open Ynca

/-! Line-protocol driver: `ynca_model <mode>` reads one operation per line on stdin and prints one
    result line per operation.  Strings are hex(UTF-8), "-" is the empty string. -/

def findCls (py : String) : Option Cls := Gen.classes.find? (·.py == py)
def findFn (c : Cls) (name : String) : Option Fn := c.fns.find? (·.name == name)

def parsePyVal (tok : String) : Option PyVal :=
  match tok.splitOn ":" with
  | ["i", n] => n.toInt?.map PyVal.int
  | ["f", n, d] => match n.toInt?, d.toNat? with
      | some n, some d => some (.float n d)
      | _, _ => none
  | ["fn"] => some .floatNonFinite
  | ["b", b] => some (.bool (b == "1"))
  | ["s", h] => (Hex.strOfHex h).map PyVal.str
  | ["m", e, m] => some (.member e m)
  | ["n"] => some .none
  | ["o"] => some .other
  | _ => none

def showEnc : Enc → String
  | .sent t => "S " ++ Hex.hexOfStr t
  | .raises => "R"
  | .unspecified => "U"

def showVal : Val → String
  | .member e m => s!"m:{e}:{m}"
  | .str s => "s:" ++ Hex.hexOfStr s
  | .int n => s!"i:{n}"
  | .dec m f => s!"d:{m}:{f}"
  | .none => "n"

def showDec : Dec → String
  | .ok v => "OK " ++ showVal v
  | .raises => "R"
  | .unspecified => "U"

def stepLine (mode : String) (line : String) : String :=
  let toks := (line.splitOn " ").filter (· ≠ "")
  match mode, toks with
  | "stepped", [vn, vd, d, sn, sd] =>
    match vn.toInt?, vd.toNat?, d.toNat?, sn.toNat?, sd.toNat? with
    | some vn, some vd, some d, some sn, some sd => String.ofList (numberToString vn vd d sn sd)
    | _, _, _, _, _ => "bad-op"
  | "encode", [cls, fn, v] =>
    match findCls cls, parsePyVal v with
    | some c, some v => match findFn c fn with
        | some f => showEnc (encode Gen.enums f.conv v)
        | none => "no-fn"
    | _, _ => "bad-op"
  | "decode", [cls, fn, h] =>
    match findCls cls, Hex.strOfHex h with
    | some c, some s => match findFn c fn with
        | some f => showDec (decode Gen.enums f.conv s)
        | none => "no-fn"
    | _, _ => "bad-op"
  | "parsedec", [h] =>
    match Hex.strOfHex h with
    | some s => match parseDecimal s.toList with
        | some (m, f) => s!"{m} {f}"
        | none => "none"
    | none => "bad-op"
  | _, _ => "bad-op"

partial def loop (mode : String) (h : IO.FS.Stream) (out : IO.FS.Stream) : IO Unit := do
  let line ← h.getLine
  if line.isEmpty then return ()
  let line := (line.dropRightWhile (fun c => c == '\n' || c == '\r'))
  out.putStrLn (stepLine mode line)
  loop mode h out

def main (args : List String) : IO UInt32 := do
  let mode := args.headD "none"
  let stdin ← IO.getStdin
  let stdout ← IO.getStdout
  loop mode stdin stdout
  stdout.flush
  return 0
