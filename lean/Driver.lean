import YncaVerif.Model.Hex
import YncaVerif.Model.Conv
import YncaVerif.Model.Subunit
import YncaVerif.Model.Framing
import YncaVerif.Model.Accept
import YncaVerif.Model.ConnCheck
import YncaVerif.Model.ApiTimed
import YncaVerif.Model.Server
import YncaVerif.Model.Dialogue
import YncaVerif.Gen.ServerTables
import YncaVerif.Gen.Enums
import YncaVerif.Gen.Functions
import YncaVerif.Gen.Consts
open Ynca

/-! Line-protocol driver: `ynca_model <mode>` reads one operation per line on stdin and prints one
    result line per operation.  Strings are hex(UTF-8), "-" is the empty string. -/

def findCls (py : String) : Option Cls := Gen.classes.find? (·.py == py)

def parsePyVal (tok : String) : Option PyVal :=
  match tok.splitOn ":" with
  | ["i", n] => n.toInt?.map PyVal.int
  | ["f", n, d] => match n.toInt?, d.toNat? with
      | some n, some d => some (.float n d)
      | _, _ => none
  | ["fn"] => some .floatNonFinite
  | ["b", b] => some (.bool (b == "1"))
  | ["s", h] => (Hex.strOfHex h).map PyVal.str
  | ["m", e, m] => some (.member e m)
  | ["n"] => some .none
  | ["o"] => some .other
  | _ => none

def showEnc : Enc → String
  | .sent t => "S " ++ Hex.hexOfStr t
  | .raises => "R"
  | .unspecified => "U"

def showVal : Val → String
  | .member e m => s!"m:{e}:{m}"
  | .str s => "s:" ++ Hex.hexOfStr s
  | .int n => s!"i:{n}"
  | .dec m f => s!"d:{m}:{f}"
  | .none => "n"

def showDec : Dec → String
  | .ok v => "OK " ++ showVal v
  | .raises => "R"
  | .unspecified => "U"

def stepLine (mode : String) (line : String) : String :=
  let toks := (line.splitOn " ").filter (· ≠ "")
  match mode, toks with
  | "stepped", [vn, vd, d, sn, sd] =>
    match vn.toInt?, vd.toNat?, d.toNat?, sn.toNat?, sd.toNat? with
    | some vn, some vd, some d, some sn, some sd => String.ofList (numberToString vn vd d sn sd)
    | _, _, _, _, _ => "bad-op"
  | "encode", [cls, fn, v] =>
    match findCls cls, parsePyVal v with
    | some c, some v => match findFn c fn with
        | some f => showEnc (encode Gen.enums f.conv v)
        | none => "no-fn"
    | _, _ => "bad-op"
  | "decode", [cls, fn, h] =>
    match findCls cls, Hex.strOfHex h with
    | some c, some s => match findFn c fn with
        | some f => showDec (decode Gen.enums f.conv s)
        | none => "no-fn"
    | _, _ => "bad-op"
  | "parsedec", [h] =>
    match Hex.strOfHex h with
    | some s => match parseDecimal s.toList with
        | some (m, f) => s!"{m} {f}"
        | none => "none"
    | none => "bad-op"
  | _, _ => "bad-op"

/-! ### stateful modes -/

structure DState where
  objs : Array SubSt := #[]
  store : Srv.Store := []
  ingestCmd : Option Srv.Cmd := none
  /-- scripted callbacks: (object index, callback id, operations performed when invoked) -/
  scripts : List (Nat × Nat × List CbOp) := []
  buf : List UInt8 := []
  kaPending : Bool := false
  /-- L5 run check: the device's answers (command text -> lines) and the dialogue state; `none` once a label was not enabled -/
  answers : List (String × List String) := []
  dlg : Option L5.D := some {}
  /-- L5c run check: time-out parameter and state of the connection_check model; `none` once a label was not enabled -/
  ccT : Nat := 1500000
  cc : Option CC.St := some {}
  /-- L7 run check: state of the `YncaApi` program model; `none` once a label was not enabled -/
  api : Option L7.T := some {}

def noExotic : Exotic := fun _ _ => none

def optOfTok (t : String) : Option (Option String) :=
  if t == "~" then some none else (Hex.strOfHex t).map some

def statusOfTok : String → Option Status
  | "OK" => some .ok
  | "UNDEFINED" => some .undefined
  | "RESTRICTED" => some .restricted
  | _ => none

def showOptVal : Option Val → String
  | some v => showVal v
  | none => "NONE"

def showWrite : WriteResult → String
  | .put fn t => "PUT " ++ Hex.hexOfStr fn ++ " " ++ Hex.hexOfStr t
  | .attributeError => "AE"
  | .raises => "R"
  | .unspecified => "U"
  | .noSuchAttr => "NOATTR"

def showSent : Sent → String
  | .put s f v => s!"put:{Hex.hexOfStr s}:{Hex.hexOfStr f}:{Hex.hexOfStr v}"
  | .get s f => s!"get:{Hex.hexOfStr s}:{Hex.hexOfStr f}"

def showMsg (m : Msg) : String :=
  let st := match m.status with | .ok => "OK" | .undefined => "UNDEFINED" | .restricted => "RESTRICTED"
  let o (x : Option String) := match x with | some s => Hex.hexOfStr s | none => "~"
  s!"{st} {o m.subunit} {o m.fn} {o m.value}"

def deliver (d : DState) (m : Msg) : DState × String :=
  let r := d.objs.foldl (init := ((#[] : Array SubSt), ([] : List String), 0)) (fun (acc : Array SubSt × List String × Nat) st =>
    let (objs, outs, i) := acc
    let script : Nat → List CbOp := fun cb =>
      match d.scripts.find? (fun e => e.1 == i && e.2.1 == cb) with
      | some e => e.2.2
      | none => []
    let st' := recvScripted Gen.enums noExotic script st m
    let newCalls := st'.calls.drop st.calls.length
    let o := newCalls.map (fun c => s!"{i}:{c.cb}:{Hex.hexOfStr c.fn}:{showVal c.val}")
    (objs.push st', outs ++ o, i + 1))
  ({ d with objs := r.1 }, if r.2.1.isEmpty then "-" else " ".intercalate r.2.1)

def withObj (d : DState) (idx : String) (f : SubSt → SubSt × String) : DState × String :=
  match idx.toNat? with
  | some i => if h : i < d.objs.size then
      let (st', out) := f d.objs[i]
      ({ d with objs := d.objs.set i st' }, out)
    else (d, "bad-index")
  | none => (d, "bad-op")

def parseArgs (toks : List String) : Option (List PyVal) := toks.mapM parsePyVal

def serverTables : Srv.Tables := ⟨Gen.multiTable, Gen.relatedTable, Gen.inputMap, Gen.zones⟩

def unspecMark : String := "\x01UNSPEC"

/-- Python `str(float(stored) + halves * 0.5)` for plain decimals with at most one fraction digit and small magnitude;
    `none` when `float()` certainly raises; a marker when the model is silent -/
def volArithPlain : Srv.VolArith := fun stored halves =>
  match parseDecimal stored.toList with
  | some (m, fr) =>
    if fr ≤ 1 && m.natAbs < 1000000 && halves.natAbs < 1000000 then
      let tenths : Int := (if fr = 0 then m * 10 else m) + halves * 5
      let a := tenths.natAbs
      let txt := (if tenths < 0 then "-" else "") ++ toString (a / 10) ++ "." ++ toString (a % 10)
      some txt
    else some unspecMark
  | none => if clearlyNotNumeric stored then none else some unspecMark

def stepState (mode : String) (d : DState) (line : String) : DState × String :=
  let toks := (line.splitOn " ").filter (· ≠ "")
  match mode, toks with
  | "conncheck", ["reset", t] => ({ d with cc := some {}, ccT := t.toNat?.getD 1500000 }, "ok")
  | "conncheck", ["outcome"] =>
    match d.cc with
    | none => (d, "dead")
    | some st =>
      (d, match st.outcome with
          | none => "none"
          | some .error => "error"
          | some (.ok n zs) => "ok " ++ Hex.hexOfStr n ++ "".intercalate (zs.map (fun z => " " ++ Hex.hexOfStr z)))
  | "conncheck", op :: args =>
    match d.cc with
    | none => (d, "dead")
    | some st =>
      let lab : Option CC.Label :=
        match op, args with
        | "probe", [] => some .probe
        | "line", [l] => (Hex.strOfHex l).map CC.Label.line
        | "wait", [] => some .wait
        | "wake", [] => some .wake
        | "timeout", [] => some .timeout
        | "tick", [n] => n.toNat?.map CC.Label.tick
        | _, _ => none
      match lab with
      | none => (d, "bad-op")
      | some lab =>
        match CC.step d.ccT st lab with
        | some st' => ({ d with cc := some st' }, "ok")
        | none => ({ d with cc := none }, "DISABLED " ++ op)
  | "api", ["reset"] => ({ d with api := some {} }, "ok")
  | "api", ["keys"] =>
    match d.api with
    | none => (d, "dead")
    | some t => (d, "keys" ++ "".intercalate (t.a.subunits.map (fun z => " " ++ Hex.hexOfStr z)))
  | "api", ["phase"] =>
    match d.api with
    | none => (d, "dead")
    | some t =>
      (d, match t.a.phase with
          | .fresh => "fresh" | .enqueueing => "enqueueing" | .detecting _ => "detecting" | .building _ => "building"
          | .ready => "ready" | .failed => "failed" | .closed => "closed")
  | "api", ["next"] =>
    -- the id of the object the model is about to construct
    match d.api with
    | none => (d, "dead")
    | some t => (d, match t.a.phase with | .building (i :: _) => "next " ++ Hex.hexOfStr i | _ => "next-none")
  | "api", op :: args =>
    match d.api with
    | none => (d, "dead")
    | some a =>
      let lab : Option L7.TLabel :=
        match op, args with
        | "construct", [n] => n.toNat?.map L7.TLabel.construct
        | _, _ => Option.map L7.TLabel.base <| match op, args with
        | "start", [] => some .start
        | "connectFails", [] => some .connectFails
        | "wait", [n] => n.toNat?.map L7.Label.wait
        | "msg", [st, su, fn, v] =>
          match statusOfTok st, optOfTok su, optOfTok fn, optOfTok v with
          | some st, some su, some fn, some v => some (.msg ⟨st, su, fn, v⟩)
          | _, _, _, _ => none
        | "wake", [] => some .wake
        | "timeout", [] => some .timeout
        | "subunitOk", [] => some .subunitOk
        | "subunitFails", [] => some .subunitFails
        | "close", [] => some .close
        | "tick", [n] => n.toNat?.map L7.Label.tick
        | _, _ => none
      match lab with
      | none => (d, "bad-op")
      | some lab =>
        let P : L7.Params := { classIds := Gen.classes.map (·.id), perCmdUs := 5 * Gen.spacingUs }
        match L7.stepT P 120 a lab with
        | some a' => ({ d with api := some a' }, "ok")
        | none => ({ d with api := none }, "DISABLED " ++ op)
  | "dialogue", "answer" :: cmd :: lines =>
    match Hex.strOfHex cmd, lines.mapM Hex.strOfHex with
    | some c, some ls => ({ d with answers := (c, ls) :: d.answers.filter (·.1 != c) }, "ok")
    | _, _ => (d, "bad-op")
  | "dialogue", ["reset"] => ({ d with dlg := some {}, answers := [] }, "ok")
  | "dialogue", op :: args =>
    let answer : L5.Answer := fun q => match d.answers.find? (·.1 == q) with | some e => e.2 | none => []
    match d.dlg with
    | none => (d, "dead")
    | some st =>
      let lab : Option L5.Label :=
        match op, args with
        | "begin", t :: qs => match t.toNat?, qs.mapM Hex.strOfHex with
            | some t, some qs => some (.begin qs t)
            | _, _ => none
        | "write", [_] => some .write
        | "consume", [] => some .consume
        | "unsol", [l] => (Hex.strOfHex l).map L5.Label.unsolicited
        | "process", [_] => some .process
        | "wake", [] => some .wake
        | "timeout", [] => some .timeout
        | "tick", [n] => n.toNat?.map L5.Label.tick
        | _, _ => none
      match lab with
      | none => (d, "bad-op")
      | some lab =>
        -- the observed text must be the one the model is about to write / process
        let textOk : Bool :=
          match op, args with
          | "write", [h] => (match st.pending with | q :: _ => Hex.strOfHex h == some q | [] => false)
          | "process", [h] => (if hh : st.processed < st.emitted.length then Hex.strOfHex h == some st.emitted[st.processed] else false)
          | _, _ => true
        if !textOk then ({ d with dlg := none }, "REJECT text")
        else match L5.step answer st lab with
          | some st' => ({ d with dlg := some st' }, "ok")
          | none => ({ d with dlg := none }, "REJECT not-enabled")
  | "subunit", ["new", py] =>
    match findCls py with
    | some c => ({ d with objs := d.objs.push (SubSt.new c) }, "ok")
    | none => (d, "no-class")
  | "subunit", ["initbegin", idx] =>
    withObj d idx (fun st =>
      if st.closed then (st, "closed") else
      let sends := initSends st.cls
      ({ st with sent := st.sent ++ sends, event := false, initialized := false },
       " ".intercalate (sends.map showSent)))
  | "subunit", ["initend", idx] =>
    withObj d idx (fun st =>
      if st.event then ({ st with initialized := true }, "ok") else (st, "timeout"))
  | "subunit", ["msg", st, su, fn, v] =>
    match statusOfTok st, optOfTok su, optOfTok fn, optOfTok v with
    | some st, some su, some fn, some v => deliver d ⟨st, su, fn, v⟩
    | _, _, _, _ => (d, "bad-op")
  | "subunit", ["read", idx, attr] =>
    withObj d idx (fun st => (st, match readAttr st attr with
      | .value v => "V " ++ showOptVal v
      | .attributeError => "AE"
      | .noSuchAttr => "NOATTR"))
  | "subunit", ["dump"] =>
    let parts := (d.objs.toList.zipIdx).flatMap (fun (st, i) =>
      st.cls.fns.filterMap (fun f =>
        if f.get then (cacheGet st.cache f.name).map (fun v => s!"{i}.{f.attr}={showVal v}") else none))
    (d, if parts.isEmpty then "-" else " ".intercalate parts)
  | "subunit", "assign" :: idx :: attr :: [v] =>
    match parsePyVal v with
    | some v => withObj d idx (fun st => let (st', r) := assign Gen.enums st attr v; (st', showWrite r))
    | none => (d, "bad-op")
  | "subunit", "act" :: idx :: meth :: args =>
    match parseArgs args with
    | some args => withObj d idx (fun st => let (st', r) := act Gen.enums st meth args; (st', showWrite r))
    | none => (d, "bad-op")
  | "subunit", ["reg", idx, cb] =>
    match cb.toNat? with
    | some cb => withObj d idx (fun st => (registerCb st cb, "ok"))
    | none => (d, "bad-op")
  | "subunit", ["unreg", idx, cb] =>
    match cb.toNat? with
    | some cb => withObj d idx (fun st => (unregisterCb st cb, "ok"))
    | none => (d, "bad-op")
  | "subunit", ["close", idx] => withObj d idx (fun st => (closeSub st, "ok"))
  | "subunit", "script" :: idx :: cb :: ops =>
    let parseOp (t : String) : Option CbOp :=
      match t.splitOn ":" with
      | ["reg", n] => n.toNat?.map CbOp.reg
      | ["unreg", n] => n.toNat?.map CbOp.unreg
      | ["close"] => some CbOp.close
      | _ => none
    match idx.toNat?, cb.toNat?, ops.mapM parseOp with
    | some i, some c, some os => ({ d with scripts := (i, c, os) :: d.scripts.filter (fun e => !(e.1 == i && e.2.1 == c)) }, "ok")
    | _, _, _ => (d, "bad-op")
  | "subunit", ["sent", idx] => withObj d idx (fun st => (st, if st.sent.isEmpty then "-" else " ".intercalate (st.sent.map showSent)))
  | "subunit", ["queries", py] =>
    match findCls py with
    | some c => (d, " ".intercalate ((initSends c).map showSent))
    | none => (d, "no-class")
  | "server", ["reset"] => ({ d with store := [], ingestCmd := none }, "ok")
  | "server", ["ingest", h] =>
    match Hex.strOfHex h with
    | some l => let r := Srv.ingestLine (d.store, d.ingestCmd) l; ({ d with store := r.1, ingestCmd := r.2 }, "ok")
    | none => (d, "bad-op")
  | "server", ["add", s, f, v] =>
    match Hex.strOfHex s, Hex.strOfHex f, Hex.strOfHex v with
    | some s, some f, some v => ({ d with store := Srv.addData d.store s f v }, "ok")
    | _, _, _ => (d, "bad-op")
  | "server", ["dump"] =>
    let parts := d.store.flatMap (fun e => e.2.map (fun kv => s!"{Hex.hexOfStr e.1}.{Hex.hexOfStr kv.1}={Hex.hexOfStr kv.2}"))
    (d, if parts.isEmpty then "-" else " ".intercalate parts)
  | "server", ["cmd", h] =>
    match Hex.strOfHex h with
    | some l =>
      let (st', out) := Srv.handleCommand serverTables volArithPlain d.store l
      let unspec := out.any (fun o => (o.splitOn unspecMark).length > 1) ||
        st'.any (fun e => e.2.any (fun kv => (kv.2.splitOn unspecMark).length > 1))
      if unspec then (d, "U")
      else ({ d with store := st' }, if out.isEmpty then "-" else " ".intercalate (out.map Hex.hexOfStr))
    | none => (d, "bad-op")
  -- framing: `chunk <hexbytes>` feeds one read; prints the parsed message of every completed line
  | "frame", ["chunk", h] =>
    match Hex.bytesOfHex h with
    | some bs =>
      let (pkts, rest) := feed CR LF d.buf bs
      let outs := pkts.map (fun p => match String.fromUTF8? (ByteArray.mk p.toArray) with
        | some s => "L " ++ showMsg (parseLine s)
        | none => "X " ++ Hex.hexOfBytes p)        -- not valid UTF-8: the 'replace' decoding is not modelled
      ({ d with buf := rest }, if outs.isEmpty then "-" else " | ".intercalate outs)
    | none => (d, "bad-op")
  | "frame", ["buffer"] => (d, Hex.hexOfBytes d.buf)
  | "frame", ["reset"] => ({ d with buf := [] }, "ok")
  | "frame", ["line", h] =>
    match Hex.strOfHex h with
    | some s => (d, showMsg (parseLine s))
    | none => (d, "bad-op")
  | m, _ => (d, stepLine m line)

/-! ### trace acceptor mode -/
open Ynca.L4 in
def parseEv (toks : List String) : Option Ev :=
  match toks with
  | ["in", "call", tid, h] => match tid.toNat?, Hex.strOfHex h with
      | some t, some x => some (.input (.call t x))
      | _, _ => none
  | ["in", "close", tid] => tid.toNat?.map (fun t => .input (.callClose t))
  | ["in", "reg", tid, cb] => match tid.toNat?, cb.toNat? with
      | some t, some c => some (.input (.reg t c))
      | _, _ => none
  | ["in", "unreg", tid, cb] => match tid.toNat?, cb.toNat? with
      | some t, some c => some (.input (.unreg t c))
      | _, _ => none
  | ["in", "dev", h] => (Hex.bytesOfHex h).map (fun b => .input (.dev b))
  | ["in", "fault"] => some (.input .fault)
  | ["in", "wfault"] => some (.input .wfault)
  | ["in", "startR"] => some (.input .startR)
  | ["in", "publish"] => some (.input .publish)
  | ["out", "write", h] => (Hex.strOfHex h).map (fun x => .output (.write x))
  | ["out", "wrej", h] => (Hex.strOfHex h).map (fun x => .output (.writeRejected x))
  | ["out", "read", h] => (Hex.bytesOfHex h).map (fun b => .output (.readChunk b))
  | ["out", "rfault"] => some (.output .readFault)
  | ["out", "msgcb", cb, st, su, fn, v] =>
    match cb.toNat?, statusOfTok st, optOfTok su, optOfTok fn, optOfTok v with
    | some c, some st, some su, some fn, some v => some (.output (.msgCb c ⟨st, su, fn, v⟩))
    | _, _, _, _, _ => none
  | ["out", "cbret", cb] => cb.toNat?.map (fun c => .output (.cbRet c))
  | ["out", "disc"] => some (.output .discCb)
  | ["out", "discret"] => some (.output .discCbRet)
  | ["out", "portclose"] => some (.output .portClose)
  | ["out", "exitS"] => some (.output .exitS)
  | ["out", "exitR"] => some (.output .exitR)
  | ["out", "ret", tid] => tid.toNat?.map (fun t => .output (.callRet t))
  | ["out", "craise", tid] => tid.toNat?.map (fun t => .output (.closeRaised t))
  | ["out", "clock", tid] => tid.toNat?.map (fun t => .output (.logged t))
  | ["out", "enq", tid] => tid.toNat?.map (fun t => .output (.enqueued t))
  | "snap" :: es =>
    (es.mapM (fun (e : String) => match e.splitOn ":" with
      | ["S", h] => (Hex.strOfHex h).map LogEntry.send
      | ["R", h] => (Hex.strOfHex h).map LogEntry.received
      | _ => none)).map Ev.snapshot
  | ["stop"] => some .stop
  | _ => none

structure AccState where
  params : L4.Params := ⟨100000, 30000000, 2000000, 1000000, 0⟩
  hidden : List String := []
  evs : Array (Nat × L4.Ev) := #[]
  bad : Option String := none

def accLine (a : AccState) (line : String) : AccState × Option String :=
  let toks := (line.splitOn " ").filter (· ≠ "")
  match toks with
  | ["params", sp, ka, jn, rd, lg, hid] =>
    match sp.toNat?, ka.toNat?, jn.toNat?, rd.toNat?, lg.toNat? with
    | some sp, some ka, some jn, some rd, some lg =>
      ({ a with params := ⟨sp, ka, jn, rd, lg⟩, hidden := if hid == "-" then [] else hid.splitOn "," }, none)
    | _, _, _, _, _ => ({ a with bad := some line }, none)
  | ["end"] =>
    match a.bad with
    | some l => ({}, some ("BAD-LINE " ++ l))
    | none =>
      let v := L4.accept a.params a.hidden a.evs.toList
      ({}, some (if v.accepted then s!"ACCEPT {v.index} {v.states} {v.maxStates}" else s!"REJECT {v.index} {v.states} {v.maxStates}"))
  | t :: rest =>
    match t.toNat?, parseEv rest with
    | some t, some e => ({ a with evs := a.evs.push (t, e) }, none)
    | _, _ => ({ a with bad := some line }, none)
  | [] => (a, none)

partial def accLoop (h : IO.FS.Stream) (out : IO.FS.Stream) (a : AccState) : IO Unit := do
  let line ← h.getLine
  if line.isEmpty then return ()
  let line := (line.dropRightWhile (fun c => c == '\n' || c == '\r'))
  let (a', o) := accLine a line
  match o with
  | some s => out.putStrLn s
  | none => pure ()
  accLoop h out a'

partial def loop (mode : String) (h : IO.FS.Stream) (out : IO.FS.Stream) (d : DState) : IO Unit := do
  let line ← h.getLine
  if line.isEmpty then return ()
  let line := (line.dropRightWhile (fun c => c == '\n' || c == '\r'))
  let (d', o) := stepState mode d line
  out.putStrLn o
  loop mode h out d'

def main (args : List String) : IO UInt32 := do
  let mode := args.headD "none"
  let stdin ← IO.getStdin
  let stdout ← IO.getStdout
  if mode == "accept" then accLoop stdin stdout {} else loop mode stdin stdout {}
  stdout.flush
  return 0
