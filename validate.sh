#!/bin/sh
# developer helper: validate MANIFEST.json and every evidence file against the schemas
python3-vt - <<'PY'
import json, jsonschema, glob
jsonschema.validate(json.load(open('/verif/MANIFEST.json')), json.load(open('/root/.vp/MANIFEST.schema.json')))
for f in sorted(glob.glob('/verif/evidence/C*.json')):
    jsonschema.validate(json.load(open(f)), json.load(open('/root/.vp/EVIDENCE.schema.json')))
    print("ok", f)
print("manifest ok")
PY
